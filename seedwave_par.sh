#!/bin/bash
# seedwave_par.sh <letter…> — one stream per property worktree /tmp/seed/<Cxx>: verifies each delivered change
# (verifyseed.sh: applies, builds, pinned suite passes with it, demonstration fails with / passes without) and runs the
# property's own quick check against it with the worktree itself as VERIF_REPO. Results: /tmp/w2logs/wave/<Cxx>.txt
mkdir -p /tmp/w2logs/wave /tmp/w2logs/stage
stream() {
  p=$1; shift; out=/tmp/w2logs/wave/$p.txt; : > $out
  for x in "$@"; do
    d=/tmp/seed/$p/SEED6; [ -f $d/$x.diff ] || continue
    v=$(/verif/verifyseed.sh $p $x "$(cat $d/${x}_cmd.txt)" 2>&1 | grep -E "rc=|baseline|does not apply|^ok$" | tr '\n' ' ')
    echo "VERIFY $p $x: $v" >> $out
    mkdir -p /tmp/w2logs/stage/$p-$x && cp $d/$x.diff /tmp/w2logs/stage/$p-$x/patch.diff
    (cd /verif && WT=/tmp/seed/$p ./seedtest_wt.sh /tmp/w2logs/stage/$p-$x/patch.diff quick $p) >> $out 2>&1
  done
  echo DONE >> $out
}
for wt in /tmp/seed/C*; do p=$(basename $wt); [ -d $wt/SEED6 ] || continue; stream $p "$@" & done
wait
