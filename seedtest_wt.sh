#!/bin/bash
# like seedtest.sh but applies the change to the scratch worktree $WT (VERIF_REPO) instead of /repo
WT=${WT:-/tmp/wt}
PATCH=$(readlink -f "$1"); TIER=$2; shift 2
cd /verif; mkdir -p .build/seedtest
git -C $WT checkout -q -- . ; git -C $WT apply "$PATCH" || { echo "patch does not apply"; exit 3; }
name=$(basename $(dirname "$PATCH"))-$(basename "$PATCH" .diff)
for id in "$@"; do
  mkdir -p .build/seedtest/ev; cp evidence/$id.json .build/seedtest/ev/ 2>/dev/null
  t0=$(date +%s)
  VERIF_REPO=$WT VERIF_SEED=${VERIF_SEED:-1} ./check $id $TIER > .build/seedtest/$name.$id.wt.log 2>&1; rc=$?
  cp .build/seedtest/ev/$id.json evidence/ 2>/dev/null
  case $rc in 1) r=DETECTED;; 0) r=missed;; *) r=inconclusive;; esac
  echo "$name $id $r (rc=$rc, $(( $(date +%s)-t0 ))s) $(grep -m1 -o 'VIOLATION C[0-9][0-9] .*' .build/seedtest/$name.$id.wt.log | cut -c1-220)"
done
git -C $WT checkout -q -- .
