#!/bin/bash
# seedtest.sh <patch.diff> <tier> <check ids...> — applies a seeded change to /repo, runs the given checks, reverts.
# Prints one line per check: <id> DETECTED|missed|inconclusive (rc) and leaves logs in .build/seedtest/.
PATCH=$(readlink -f "$1"); TIER=$2; shift 2
cd /verif; mkdir -p .build/seedtest
if ! git -C /repo diff --quiet; then echo "/repo is dirty, refusing"; exit 3; fi
git -C /repo apply "$PATCH" || { echo "patch does not apply"; exit 3; }
trap 'git -C /repo checkout -- . ; git -C /repo clean -fdq' EXIT
name=$(basename $(dirname "$PATCH"))-$(basename "$PATCH" .diff)
for id in "$@"; do
  mkdir -p .build/seedtest/ev; cp evidence/$id.json .build/seedtest/ev/ 2>/dev/null
  t0=$(date +%s)
  VERIF_SEED=${VERIF_SEED:-1} ./check $id $TIER > .build/seedtest/$name.$id.log 2>&1; rc=$?
  cp .build/seedtest/ev/$id.json evidence/ 2>/dev/null
  case $rc in 1) r=DETECTED;; 0) r=missed;; *) r=inconclusive;; esac
  echo "$name $id $r (rc=$rc, $(( $(date +%s)-t0 ))s) $(grep -m1 -o 'VIOLATION C[0-9][0-9] .*' .build/seedtest/$name.$id.log | cut -c1-220)"
done
