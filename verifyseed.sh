#!/bin/bash
# verifyseed.sh <pid> <A|B|C|D> "<demo command>" — in the sub-agent's scratch worktree: the change applies, builds,
# the pinned suite passes with it, the demonstration fails with it and passes without it. (C, D = second wave, SEED2/)
PID=$1; X=$2; DEMO=$3; WT=/tmp/seed/$PID
case $X in A|B) SD=SEED;; C|D) SD=SEED2;; E|F) SD=SEED3;; G|H) SD=SEED4;; I|J) SD=SEED5;; *) SD=SEED6;; esac
export GOFLAGS=-mod=mod GOPROXY=off GOSUMDB=off GOTOOLCHAIN=local
cd $WT || exit 3
git checkout -q -- . ; git clean -fdq -e SEED -e SEED2 -e SEED3 -e SEED4 -e SEED5 -e SEED6
echo "== demo WITHOUT change"; (set -o pipefail; eval "$DEMO") > /tmp/w2logs/$PID.$X.without.log 2>&1; echo "rc=$?"; tail -3 /tmp/w2logs/$PID.$X.without.log
git apply $SD/$X.diff || { echo "does not apply"; exit 1; }
echo "== build"; go build ./... && echo ok
echo "== suite with change"; /verif/baseline.sh $WT | tail -3
echo "== demo WITH change"; (set -o pipefail; eval "$DEMO") > /tmp/w2logs/$PID.$X.with.log 2>&1; echo "rc=$?"; tail -5 /tmp/w2logs/$PID.$X.with.log
git checkout -q -- . ; git clean -fdq -e SEED -e SEED2 -e SEED3 -e SEED4 -e SEED5 -e SEED6; git status --short | grep -v SEED | head -3
