#!/bin/bash
# verifyseed.sh <pid> <A|B> "<demo command>" — in the sub-agent's scratch worktree: the change applies, builds,
# the pinned suite passes with it, the demonstration fails with it and passes without it.
PID=$1; X=$2; DEMO=$3; WT=/tmp/seed/$PID
export GOFLAGS=-mod=mod GOPROXY=off GOSUMDB=off GOTOOLCHAIN=local
cd $WT || exit 3
git checkout -q -- . ; 
echo "== demo WITHOUT change"; (eval "$DEMO") > /tmp/seed/$PID.$X.without.log 2>&1; echo "rc=$?"; tail -3 /tmp/seed/$PID.$X.without.log
git apply SEED/$X.diff || { echo "does not apply"; exit 1; }
echo "== build"; go build ./... && echo ok
echo "== suite with change"; /verif/baseline.sh $WT | tail -3
echo "== demo WITH change"; (eval "$DEMO") > /tmp/seed/$PID.$X.with.log 2>&1; echo "rc=$?"; tail -5 /tmp/seed/$PID.$X.with.log
git checkout -q -- . ; git clean -fdq -e SEED; git status --short | grep -v SEED | head -3
