// Package kernelq decides C12 on the production queues: internal/api, internal/aio, system.Tick/Loop/Shutdown.
package kernelq

import (
	"errors"
	"fmt"
	"os"
	"path/filepath"
	"sync"
	"sync/atomic"
	"testing"
	"time"

	"github.com/prometheus/client_golang/prometheus"
	"github.com/resonatehq/resonate/internal/aio"
	"github.com/resonatehq/resonate/internal/api"
	"github.com/resonatehq/resonate/internal/app/coroutines"
	"github.com/resonatehq/resonate/internal/app/subsystems/aio/echo"
	"github.com/resonatehq/resonate/internal/app/subsystems/aio/store"
	"github.com/resonatehq/resonate/internal/app/subsystems/aio/store/sqlite"
	"github.com/resonatehq/resonate/internal/kernel/bus"
	"github.com/resonatehq/resonate/internal/kernel/system"
	"github.com/resonatehq/resonate/internal/kernel/t_aio"
	"github.com/resonatehq/resonate/internal/kernel/t_api"
	"github.com/resonatehq/resonate/internal/metrics"
	"github.com/resonatehq/resonate/internal/verif/core"
	"pgregory.net/rapid"
)

type SQE = bus.SQE[t_aio.Submission, t_aio.Completion]
type CQE = bus.CQE[t_aio.Submission, t_aio.Completion]

// stepSub is an AIO subsystem whose queue the harness empties one submission at a time.
type stepSub struct {
	q   []*SQE
	cap int
}

func (s *stepSub) String() string           { return "echo:stepped" }
func (s *stepSub) Kind() t_aio.Kind         { return t_aio.Echo }
func (s *stepSub) Start(chan<- error) error { return nil }
func (s *stepSub) Stop() error              { return nil }
func (s *stepSub) Flush(int64)              {}
func (s *stepSub) Enqueue(sqe *SQE) bool {
	if len(s.q) >= s.cap {
		return false
	}
	s.q = append(s.q, sqe)
	return true
}

type rec struct {
	id       string
	data     string
	n        int32
	res      *t_api.Response
	err      error
	expect   string // "" = a real answer (echo or echo-error); else the refusal status name
	afterShd bool
}

func code(err error) t_api.StatusCode {
	var e *t_api.Error
	if errors.As(err, &e) {
		return e.Code()
	}
	return 0
}

// TestC12 — deterministic part: one goroutine drives submissions, ticks, subsystem completions and shutdown.
func TestC12(t *testing.T) {
	stats := core.NewStats("C12", "(a) deterministic: rapid state machine over the PRODUCTION api queue, aio completion queue and system.Tick with a harness-stepped subsystem: submit / tick / complete-one (success or failure) / shutdown, with api queue, completion queue, subsystem queue, coroutine pool and submission/completion batch sizes down to 1. Oracle: at quiescence every submitted request was answered exactly once; requests the harness predicts to be refused (api queue full, scheduler full, after shutdown) carry exactly that error; every answer carries the request's own payload; after Shutdown every previously accepted request is answered before Done(). (b) stress: real goroutines — concurrent clients, production echo + sqlite workers (1 ns transaction timeout for natural store failures), Loop(), Shutdown after a drawn number of answers; judged only after Loop and all clients returned: every request whose EnqueueSQE returned was answered exactly once. Non-trivial: >=1 refusal for a full queue AND a shutdown with requests in flight. Distinct = operation sequence shape.")
	defer stats.Write()
	rapid.Check(t, func(rt *rapid.T) {
		stats.Eval()
		sizes := []int{1, 1, 2, 3, 8}
		apiSize := rapid.SampledFrom(sizes).Draw(rt, "apiSize")
		cqSize := rapid.SampledFrom(sizes).Draw(rt, "cqSize")
		subCap := rapid.SampledFrom(sizes).Draw(rt, "subCap")
		cfg := &system.Config{CoroutineMaxSize: rapid.SampledFrom(sizes).Draw(rt, "cms"), SubmissionBatchSize: rapid.SampledFrom(sizes).Draw(rt, "sbs"), CompletionBatchSize: rapid.SampledFrom(sizes).Draw(rt, "cbs"),
			PromiseBatchSize: 1, ScheduleBatchSize: 1, TaskBatchSize: 1, SignalTimeout: time.Second, TaskEnqueueDelay: time.Second}
		m := metrics.New(prometheus.NewRegistry())
		ap := api.New(apiSize, m)
		ai := aio.New(cqSize, m)
		sub := &stepSub{cap: subCap}
		ai.AddSubsystem(sub)
		sys := system.New(ap, ai, cfg, m)
		sys.AddOnRequest(t_api.Echo, coroutines.Echo)
		var recs []*rec
		// occupancy of the api queue / completion queue is tracked as an interval: a tick dequeues at least one
		// entry of a non-empty queue and at most the batch size (how many exactly is the queue's business)
		apiMin, apiMax, cqMax := 0, 0, 0
		now := int64(1000)
		shutdown := false
		var trace []string
		sawFull, shdInFlight := false, false
		fail := func(f string, a ...any) {
			msg := fmt.Sprintf(f, a...)
			core.SaveFailure("last", map[string]any{"violation": msg, "trace": trace, "config": fmt.Sprintf("api=%d cq=%d sub=%d %s", apiSize, cqSize, subCap, cfg)})
			rt.Fatalf("VIOLATION C12 %s\n%v", msg, trace)
		}
		inflight := func() int {
			n := 0
			for _, r := range recs {
				if atomic.LoadInt32(&r.n) == 0 {
					n++
				}
			}
			return n
		}
		submit := func() {
			r := &rec{id: fmt.Sprintf("r%d", len(recs)), data: fmt.Sprintf("payload-%d", len(recs))}
			if shutdown {
				r.expect, r.afterShd = "shutting-down", true
			}
			recs = append(recs, r)
			trace = append(trace, "submit "+r.id+" expect="+r.expect)
			ap.EnqueueSQE(&bus.SQE[t_api.Request, t_api.Response]{Id: r.id, Submission: &t_api.Request{Kind: t_api.Echo, Tags: map[string]string{"id": r.id, "name": "Echo"}, Echo: &t_api.EchoRequest{Data: r.data}},
				Callback: func(res *t_api.Response, err error) {
					atomic.AddInt32(&r.n, 1)
					r.res, r.err = res, err
				}})
			if r.expect != "" && atomic.LoadInt32(&r.n) != 1 {
				fail("request %s should have been refused at once (%s) but got %d answers", r.id, r.expect, r.n)
			}
			if !shutdown {
				if atomic.LoadInt32(&r.n) == 1 && code(r.err) == t_api.StatusAPISubmissionQueueFull {
					// refused at the door: only legitimate if the queue can be full
					r.expect = "api-queue-full"
					sawFull = true
					if apiMax < apiSize {
						fail("request %s refused with queue-full although at most %d of %d api queue slots can be taken", r.id, apiMax, apiSize)
					}
				} else {
					if atomic.LoadInt32(&r.n) != 0 {
						fail("request %s was answered inside EnqueueSQE with %v / %v", r.id, r.res, r.err)
					}
					if apiMin >= apiSize {
						fail("request %s accepted although the api queue (size %d) holds at least %d requests", r.id, apiSize, apiMin)
					}
					apiMin++
					apiMax++
				}
			}
		}
		tick := func() {
			trace = append(trace, "tick")
			// Tick runs under a watchdog: the kernel goroutine is the only consumer of the completion queue, so a Tick
			// that blocks (e.g. on a send to a full queue) never returns and nothing is ever answered again
			ticked := make(chan struct{})
			go func(t int64) { sys.Tick(t); close(ticked) }(now)
			select {
			case <-ticked:
			case <-time.After(5 * time.Second):
				fail("the kernel blocked inside Tick (5 s): it is the only consumer of its queues, so every request in flight and every later one goes unanswered")
			}
			now++
			if cqMax > 0 {
				cqMax--
			}
			if apiMax > 0 {
				apiMax--
			}
			apiMin -= min(apiMin, cfg.SubmissionBatchSize)
		}
		complete := func(ok bool) bool {
			if len(sub.q) == 0 || cqMax >= cqSize {
				return false
			}
			sqe := sub.q[0]
			sub.q = sub.q[1:]
			cqe := &CQE{Id: sqe.Id, Callback: sqe.Callback}
			if ok {
				cqe.Completion = &t_aio.Completion{Kind: t_aio.Echo, Tags: sqe.Submission.Tags, Echo: &t_aio.EchoCompletion{Data: sqe.Submission.Echo.Data}}
			} else {
				cqe.Error = errors.New("subsystem failure")
			}
			trace = append(trace, fmt.Sprintf("complete %s ok=%v", sqe.Id, ok))
			ai.EnqueueCQE(cqe)
			cqMax++
			return true
		}
		rt.Repeat(map[string]func(*rapid.T){
			"submit": func(*rapid.T) { submit() },
			"burst": func(rt *rapid.T) {
				for i := rapid.IntRange(2, 6).Draw(rt, "n"); i > 0; i-- {
					submit()
				}
			},
			"tick": func(*rapid.T) { tick() },
			"complete": func(rt *rapid.T) {
				if !complete(rapid.IntRange(0, 3).Draw(rt, "ok") != 0) {
					rt.Skip("nothing to complete / completion queue full")
				}
			},
			"shutdown": func(rt *rapid.T) {
				if shutdown {
					rt.Skip("already shut down")
				}
				if inflight() > 0 {
					shdInFlight = true
				}
				trace = append(trace, "shutdown")
				sys.Shutdown()
				shutdown = true
			},
		})
		// quiescence: answer everything, tick until nothing moves
		for i := 0; i < 10000; i++ {
			for complete(true) {
			}
			tick()
			if len(sub.q) == 0 && cqMax == 0 && apiMax == 0 && inflight() == 0 {
				break
			}
		}
		if shutdown {
			for i := 0; i < 100 && !sys.Done(); i++ {
				tick()
			}
			if !sys.Done() {
				fail("after Shutdown and draining, the system never reports Done()")
			}
		}
		for _, r := range recs {
			n := atomic.LoadInt32(&r.n)
			if n != 1 {
				fail("request %s (%s) was answered %d times", r.id, r.expect, n)
			}
			c := code(r.err)
			switch r.expect {
			case "shutting-down":
				if c != t_api.StatusSystemShuttingDown {
					fail("request %s submitted after Shutdown got %v / %v, want the shutting-down error", r.id, r.res, r.err)
				}
			case "api-queue-full":
				if c != t_api.StatusAPISubmissionQueueFull {
					fail("request %s submitted to a full api queue got %v / %v, want the queue-full error", r.id, r.res, r.err)
				}
			default:
				switch {
				case r.err == nil:
					if r.res == nil || r.res.Echo == nil || r.res.Echo.Data != r.data {
						fail("request %s (payload %q) was answered with %v", r.id, r.data, r.res)
					}
				case c == t_api.StatusSchedulerQueueFull:
					sawFull = true
				case c == t_api.StatusAIOEchoError:
				default:
					fail("request %s was answered with an unexpected error %v", r.id, r.err)
				}
			}
		}
		if sawFull && shdInFlight {
			stats.Nontriv(fmt.Sprint(trace), map[string]any{"config": fmt.Sprintf("api=%d cq=%d sub=%d cms=%d sbs=%d cbs=%d", apiSize, cqSize, subCap, cfg.CoroutineMaxSize, cfg.SubmissionBatchSize, cfg.CompletionBatchSize), "operations": trace})
		}
		if sawFull {
			stats.Class("queue-full-refusal")
		}
		if shdInFlight {
			stats.Class("shutdown-with-requests-in-flight")
		}
	})
	storeFailures(t, stats)
	if core.Env("VERIF_STRESS", "1") == "1" {
		for i := 0; i < 40; i++ {
			idleShutdown(t, stats, i)
		}
		rounds := 6
		if core.Tier() == "thorough" {
			rounds = 60
		}
		for i := 0; i < rounds; i++ {
			stress(t, stats, int64(core.EnvInt("VERIF_SEED", 1))*1000+int64(i))
		}
		lonelyN := 2000
		if core.Tier() == "thorough" {
			lonelyN = 20000
		}
		lonely(t, stats, lonelyN)
		races := 150
		if core.Tier() == "thorough" {
			races = 1500
		}
		for i := 0; i < races; i++ {
			shutdownRace(t, stats, core.EnvInt("VERIF_SEED", 1)*races+i)
		}
	}
}

// stress is part (b): real goroutines; judged only once Loop and all clients have returned.
func stress(t *testing.T, stats *core.Stats, seed int64) {
	dir := core.Scratch("verif-c12-")
	defer os.RemoveAll(dir)
	pick := func(k int64, xs ...int) int { return xs[int((seed/k)%int64(len(xs)))] }
	apiSize, cqSize := pick(1, 1, 2, 8, 64), pick(3, 1, 2, 16)
	cfg := &system.Config{CoroutineMaxSize: pick(5, 1, 2, 16, 100), SubmissionBatchSize: pick(7, 1, 4, 100), CompletionBatchSize: pick(11, 1, 4, 100),
		PromiseBatchSize: 1, ScheduleBatchSize: 1, TaskBatchSize: 1, SignalTimeout: 20 * time.Millisecond, TaskEnqueueDelay: time.Second}
	m := metrics.New(prometheus.NewRegistry())
	ap := api.New(apiSize, m)
	ai := aio.New(cqSize, m)
	ec, _ := echo.New(ai, m, &echo.Config{Size: pick(13, 1, 2, 32), BatchSize: 4, Workers: pick(17, 1, 3)})
	txTimeout := 10 * time.Second
	if seed%2 == 0 {
		txTimeout = time.Nanosecond // every store transaction fails: natural subsystem failures
	}
	st, err := sqlite.New(ai, m, &sqlite.Config{Size: pick(19, 1, 4, 64), BatchSize: pick(23, 1, 8), Path: filepath.Join(dir, "c12.db"), TxTimeout: txTimeout})
	if err != nil {
		t.Fatal(err)
	}
	ai.AddSubsystem(ec)
	ai.AddSubsystem(st)
	if err := ai.Start(); err != nil {
		t.Fatal(err)
	}
	sys := system.New(ap, ai, cfg, m)
	sys.AddOnRequest(t_api.Echo, coroutines.Echo)
	sys.AddOnRequest(t_api.ReadPromise, coroutines.ReadPromise)
	loopDone := make(chan struct{})
	go func() { _ = sys.Loop(); close(loopDone) }()
	const clients, perClient = 8, 60
	type r struct {
		n    int32
		kind string
		err  error
	}
	all := make([][]*r, clients)
	var answered int32
	shutdownAfter := int32(pick(29, 5, 60, 200, 400))
	var once sync.Once
	var wg sync.WaitGroup
	for c := 0; c < clients; c++ {
		wg.Add(1)
		go func(c int) {
			defer wg.Done()
			for i := 0; i < perClient; i++ {
				x := &r{}
				all[c] = append(all[c], x)
				req := &t_api.Request{Kind: t_api.Echo, Tags: map[string]string{"id": fmt.Sprintf("c%d.%d", c, i), "name": "Echo"}, Echo: &t_api.EchoRequest{Data: "d"}}
				if i%3 == 0 {
					req = &t_api.Request{Kind: t_api.ReadPromise, Tags: map[string]string{"id": fmt.Sprintf("c%d.%d", c, i), "name": "ReadPromise"}, ReadPromise: &t_api.ReadPromiseRequest{Id: "p"}}
				}
				x.kind = req.Kind.String()
				ap.EnqueueSQE(&bus.SQE[t_api.Request, t_api.Response]{Id: req.Tags["id"], Submission: req, Callback: func(res *t_api.Response, err error) {
					atomic.AddInt32(&x.n, 1)
					x.err = err
					if atomic.AddInt32(&answered, 1) == shutdownAfter {
						once.Do(func() { go sys.Shutdown() })
					}
				}})
				if i%7 == 0 {
					time.Sleep(200 * time.Microsecond)
				}
			}
		}(c)
	}
	clientsDone := make(chan struct{})
	go func() { wg.Wait(); close(clientsDone) }()
	select {
	case <-clientsDone:
	case <-time.After(30 * time.Second):
		stats.Class("stress-inconclusive:clients-stuck")
		return
	}
	once.Do(func() { sys.Shutdown() })
	select {
	case <-loopDone:
	case <-time.After(30 * time.Second):
		stats.Class("stress-inconclusive:loop-did-not-return")
		return
	}
	time.Sleep(20 * time.Millisecond)
	_ = ap.Stop()
	_ = ai.Stop()
	none, twice, total := 0, 0, 0
	var example string
	for c := range all {
		for i, x := range all[c] {
			total++
			switch n := atomic.LoadInt32(&x.n); {
			case n == 0:
				none++
				example = fmt.Sprintf("c%d.%d %s", c, i, x.kind)
			case n > 1:
				twice++
				example = fmt.Sprintf("c%d.%d %s answered %d times", c, i, x.kind, n)
			}
		}
	}
	stats.Eval()
	stats.Class("stress-run")
	if twice > 0 {
		core.SaveFailure("last", map[string]any{"violation": "request answered twice", "example": example, "seed": seed})
		t.Fatalf("VIOLATION C12 stress seed %d: %d of %d requests were answered more than once (%s)", seed, twice, total, example)
	}
	if none > 0 {
		key := "C12:enqueue-overlapping-shutdown"
		msg := fmt.Sprintf("stress seed %d (api=%d cq=%d %s): %d of %d requests whose EnqueueSQE returned were never answered although Loop has returned (e.g. %s)", seed, apiSize, cqSize, cfg, none, total, example)
		if core.IsKnown(key) {
			stats.KnownFinding(key)
			fmt.Printf("KNOWN-FINDING: property=C12 %s — %s\n", key, msg)
			return
		}
		core.SaveFailure("last", map[string]any{"violation": msg, "key": key})
		t.Fatalf("VIOLATION C12 %s", msg)
	}
}

// failing is a store whose Execute always fails / always succeeds with empty results.
type fakeStore struct{ fail bool }

func (f *fakeStore) Execute(txs []*t_aio.Transaction) ([][]*t_aio.Result, error) {
	if f.fail {
		return nil, errors.New("store down")
	}
	out := make([][]*t_aio.Result, len(txs))
	for i, tx := range txs {
		out[i] = make([]*t_aio.Result, len(tx.Commands))
	}
	return out, nil
}

// storeFailures: the function every store worker uses to turn a batch into completions (store.Process) must
// produce exactly one completion per submission, also when the batch fails as a whole ("subsystem failures").
func storeFailures(t *testing.T, stats *core.Stats) {
	rapid.Check(t, func(rt *rapid.T) {
		n := rapid.IntRange(0, 12).Draw(rt, "n")
		fail := rapid.Bool().Draw(rt, "fail")
		sqes := make([]*SQE, n)
		called := make([]int, n)
		for i := range sqes {
			i := i
			k := rapid.IntRange(1, 3).Draw(rt, "ncmd")
			cmds := make([]*t_aio.Command, k)
			for x := range cmds {
				cmds[x] = &t_aio.Command{Kind: t_aio.ReadPromise, ReadPromise: &t_aio.ReadPromiseCommand{Id: "p"}}
			}
			sqes[i] = &SQE{Id: fmt.Sprint("s", i), Submission: &t_aio.Submission{Kind: t_aio.Store, Tags: map[string]string{"id": fmt.Sprint("s", i)}, Store: &t_aio.StoreSubmission{Transaction: &t_aio.Transaction{Commands: cmds}}},
				Callback: func(*t_aio.Completion, error) { called[i]++ }}
		}
		cqes := store.Process(&fakeStore{fail: fail}, sqes)
		stats.Eval()
		if len(cqes) != n {
			core.SaveFailure("last", map[string]any{"violation": "store.Process lost completions", "submissions": n, "completions": len(cqes), "store_failed": fail})
			rt.Fatalf("VIOLATION C12 a store batch of %d submissions (store failed = %v) produced %d completions: the other requests would never be answered", n, fail, len(cqes))
		}
		for i, c := range cqes {
			if c.Id != sqes[i].Id || c.Callback == nil || (c.Error != nil) != fail || (c.Completion != nil) == fail {
				rt.Fatalf("VIOLATION C12 completion %d of a store batch (store failed = %v) is %v", i, fail, c)
			}
			c.Callback(c.Completion, c.Error)
		}
		for i, k := range called {
			if k != 1 {
				rt.Fatalf("VIOLATION C12 submission %d of a store batch was completed %d times", i, k)
			}
		}
		if fail && n > 1 {
			stats.Class("store-batch-failure")
		}
	})
}

// idleShutdown: a request that arrives on an idle loop immediately before Shutdown is accepted (EnqueueSQE
// returned without an error answer) and must therefore be answered before Loop returns.
func idleShutdown(t *testing.T, stats *core.Stats, i int) {
	m := metrics.New(prometheus.NewRegistry())
	ap := api.New(8, m)
	ai := aio.New(8, m)
	ec, _ := echo.New(ai, m, &echo.Config{Size: 8, BatchSize: 4, Workers: 1})
	ai.AddSubsystem(ec)
	_ = ai.Start()
	cfg := &system.Config{CoroutineMaxSize: 8, SubmissionBatchSize: 8, CompletionBatchSize: 8, PromiseBatchSize: 1, ScheduleBatchSize: 1, TaskBatchSize: 1, SignalTimeout: 50 * time.Millisecond, TaskEnqueueDelay: time.Second}
	sys := system.New(ap, ai, cfg, m)
	sys.AddOnRequest(t_api.Echo, coroutines.Echo)
	loopDone := make(chan struct{})
	go func() { _ = sys.Loop(); close(loopDone) }()
	time.Sleep(time.Duration(1+i%5) * time.Millisecond) // the loop is idle, waiting for a signal
	var n int32
	var rerr error
	ap.EnqueueSQE(&bus.SQE[t_api.Request, t_api.Response]{Id: "idle", Submission: &t_api.Request{Kind: t_api.Echo, Tags: map[string]string{"id": "idle", "name": "Echo"}, Echo: &t_api.EchoRequest{Data: "d"}},
		Callback: func(res *t_api.Response, err error) { atomic.AddInt32(&n, 1); rerr = err }})
	if i%2 == 1 {
		time.Sleep(200 * time.Microsecond)
	}
	sys.Shutdown()
	select {
	case <-loopDone:
	case <-time.After(20 * time.Second):
		stats.Class("idle-shutdown-inconclusive:loop-did-not-return")
		return
	}
	time.Sleep(5 * time.Millisecond)
	_ = ap.Stop()
	_ = ai.Stop()
	stats.Eval()
	stats.Class("idle-shutdown-trial")
	if k := atomic.LoadInt32(&n); k != 1 {
		msg := fmt.Sprintf("a request accepted on an idle loop right before Shutdown was answered %d times although Loop has returned (trial %d, last error %v)", k, i, rerr)
		core.SaveFailure("last", map[string]any{"violation": msg})
		t.Fatalf("VIOLATION C12 %s", msg)
	}
}

// lonely: one client, one request at a time, on a server that is otherwise idle (and has been idle for several
// signal timeouts before): production api + aio + sqlite store subsystem (batch size 10, its worker collects a batch
// until it is flushed) + Loop. Nothing but the loop's own periodic wake-up comes to the rescue of a submission that
// sits in a partially collected batch, so every single request must still be answered (here: within 10 s, the signal
// timeout being 10 ms).
func lonely(t *testing.T, stats *core.Stats, n int) {
	m := metrics.New(prometheus.NewRegistry())
	dir := core.Scratch("verif-c12-lonely-")
	defer os.RemoveAll(dir)
	ap := api.New(100, m)
	ai := aio.New(100, m)
	st, err := sqlite.New(ai, m, &sqlite.Config{Size: 100, BatchSize: 10, Path: filepath.Join(dir, "l.db"), TxTimeout: 10 * time.Second})
	if err != nil {
		t.Fatalf("harness: %v", err)
	}
	ai.AddSubsystem(st)
	if err := ai.Start(); err != nil {
		t.Fatalf("harness: %v", err)
	}
	cfg := &system.Config{CoroutineMaxSize: 100, SubmissionBatchSize: 100, CompletionBatchSize: 100, PromiseBatchSize: 1, ScheduleBatchSize: 1, TaskBatchSize: 1, SignalTimeout: 10 * time.Millisecond, TaskEnqueueDelay: time.Second}
	sys := system.New(ap, ai, cfg, m)
	sys.AddOnRequest(t_api.ReadPromise, coroutines.ReadPromise)
	loopDone := make(chan struct{})
	go func() { _ = sys.Loop(); close(loopDone) }()
	time.Sleep(45 * time.Millisecond) // idle for several signal timeouts
	late := 0
	for i := 0; i < n; i++ {
		if i%250 == 249 {
			time.Sleep(25 * time.Millisecond) // idle again
		}
		done := make(chan struct{})
		t0 := time.Now()
		ap.EnqueueSQE(&bus.SQE[t_api.Request, t_api.Response]{Id: "lonely", Submission: &t_api.Request{Kind: t_api.ReadPromise, Tags: map[string]string{"id": fmt.Sprintf("l%d", i), "name": "ReadPromise"}, ReadPromise: &t_api.ReadPromiseRequest{Id: "nobody"}},
			Callback: func(*t_api.Response, error) { close(done) }})
		select {
		case <-done:
			if time.Since(t0) > 5*time.Millisecond {
				late++
			}
		case <-time.After(10 * time.Second):
			msg := fmt.Sprintf("request %d of a single sequential client on an otherwise idle server (sqlite store subsystem with batch size 10, signal timeout 10 ms) was accepted but not answered within 10 s", i)
			core.SaveFailure("last", map[string]any{"violation": msg})
			t.Fatalf("VIOLATION C12 %s", msg)
		}
		stats.Eval()
	}
	stats.ClassN("lonely-request", n)
	stats.ClassN("lonely-request-answered-only-after-the-loop's-periodic-wake-up", late)
	sys.Shutdown()
	select {
	case <-loopDone:
	case <-time.After(20 * time.Second):
		stats.Class("lonely-inconclusive:loop-did-not-return")
		return
	}
	_ = ap.Stop()
	_ = ai.Stop()
}

// shutdownRace aims at one window: a client's EnqueueSQE that overlaps Shutdown and the loop's last look at the
// queue. Clients hammer the api queue without pause until they are told the system is shutting down; Shutdown is
// called from another goroutine at a drawn instant; judged after Loop and the clients returned: a request whose
// EnqueueSQE returned without an answer must be answered by the time Loop has returned.
func shutdownRace(t *testing.T, stats *core.Stats, trial int) {
	m := metrics.New(prometheus.NewRegistry())
	ap := api.New(1000, m)
	ai := aio.New(1000, m)
	ec, _ := echo.New(ai, m, &echo.Config{Size: 1000, BatchSize: 16, Workers: 2})
	ai.AddSubsystem(ec)
	if err := ai.Start(); err != nil {
		t.Fatal(err)
	}
	cfg := &system.Config{CoroutineMaxSize: 1000, SubmissionBatchSize: 100, CompletionBatchSize: 100, PromiseBatchSize: 1, ScheduleBatchSize: 1, TaskBatchSize: 1, SignalTimeout: 5 * time.Millisecond, TaskEnqueueDelay: time.Second}
	sys := system.New(ap, ai, cfg, m)
	sys.AddOnRequest(t_api.Echo, coroutines.Echo)
	loopDone := make(chan struct{})
	go func() { _ = sys.Loop(); close(loopDone) }()
	const clients = 6
	var sent, answeredN int64
	var wg sync.WaitGroup
	for c := 0; c < clients; c++ {
		wg.Add(1)
		go func(c int) {
			defer wg.Done()
			for i := 0; i < 200000; i++ {
				var refused int32
				atomic.AddInt64(&sent, 1)
				ap.EnqueueSQE(&bus.SQE[t_api.Request, t_api.Response]{Id: "x", Submission: &t_api.Request{Kind: t_api.Echo, Tags: map[string]string{"id": fmt.Sprintf("c%d.%d", c, i), "name": "Echo"}, Echo: &t_api.EchoRequest{Data: "d"}},
					Callback: func(res *t_api.Response, err error) {
						atomic.AddInt64(&answeredN, 1)
						if err != nil && code(err) == t_api.StatusSystemShuttingDown {
							atomic.StoreInt32(&refused, 1)
						}
					}})
				if atomic.LoadInt32(&refused) == 1 {
					return
				}
			}
		}(c)
	}
	time.Sleep(time.Duration(200+(trial*37)%1800) * time.Microsecond)
	sys.Shutdown()
	select {
	case <-loopDone:
	case <-time.After(30 * time.Second):
		stats.Class("shutdown-race-inconclusive:loop-did-not-return")
		return
	}
	done := make(chan struct{})
	go func() { wg.Wait(); close(done) }()
	select {
	case <-done:
	case <-time.After(30 * time.Second):
		stats.Class("shutdown-race-inconclusive:clients-stuck")
		return
	}
	time.Sleep(5 * time.Millisecond)
	stats.Eval()
	stats.Class("shutdown-race-trial")
	if s, a := atomic.LoadInt64(&sent), atomic.LoadInt64(&answeredN); a < s {
		key := "C12:enqueue-overlapping-shutdown"
		msg := fmt.Sprintf("shutdown race trial %d: %d of %d requests whose EnqueueSQE returned were never answered although Loop has returned (accepted into the queue after the loop's last look at it)", trial, s-a, s)
		if core.IsKnown(key) {
			stats.KnownFinding(key)
			fmt.Printf("KNOWN-FINDING: property=C12 %s — %s\n", key, msg)
			return
		}
		core.SaveFailure("last", map[string]any{"violation": msg, "key": key})
		t.Fatalf("VIOLATION C12 %s", msg)
	} else if a > s {
		core.SaveFailure("last", map[string]any{"violation": "more answers than requests"})
		t.Fatalf("VIOLATION C12 shutdown race trial %d: %d answers for %d requests", trial, a, s)
	}
	_ = ap.Stop()
	_ = ai.Stop()
}
