package kernelq

import (
	"database/sql"
	"fmt"
	"os"
	"path/filepath"
	"testing"
	"time"

	_ "github.com/mattn/go-sqlite3"
	"github.com/prometheus/client_golang/prometheus"
	"github.com/resonatehq/resonate/internal/aio"
	"github.com/resonatehq/resonate/internal/api"
	"github.com/resonatehq/resonate/internal/app/coroutines"
	"github.com/resonatehq/resonate/internal/app/subsystems/aio/router"
	"github.com/resonatehq/resonate/internal/app/subsystems/aio/store/sqlite"
	"github.com/resonatehq/resonate/internal/kernel/bus"
	"github.com/resonatehq/resonate/internal/kernel/system"
	"github.com/resonatehq/resonate/internal/kernel/t_api"
	"github.com/resonatehq/resonate/internal/metrics"
	"github.com/resonatehq/resonate/internal/verif/core"
	"pgregory.net/rapid"
)

// TestC11b — C11 on the PRODUCTION queues ("for every batch/queue configuration"): the simulator tier replaces
// internal/aio by its own scheduler, so the bounded completion queue, the bounded subsystem queues and their
// refusals are exercised here: production api + aio + sqlite store subsystem (its own worker goroutine) + router,
// the sweeps that need no transport, small queue sizes against large sweep batches. The harness owns the clock
// (system.Tick(t)); the store worker is a real goroutine, so the oracle is phrased as convergence: the backlog must be
// worked off while ticks continue, and a Tick must return.
func TestC11b(t *testing.T) {
	if os.Getenv("VERIF_PROP") == "" {
		_ = os.Setenv("VERIF_PROP", "C11")
	}
	stats := core.NewStats("C11", "tier (b), production queues: api + aio (completion queue size 1..8 or 100) + sqlite store subsystem (submission queue 1..8 or 100, batch size 1..16, real worker goroutine) + router, background coroutines TimeoutPromises / TimeoutLocks / TimeoutTasks / SchedulePromises with sweep batch sizes 1..100, coroutine pool 5..100, submission/completion batch sizes 1..50; rapid draws the configuration and a backlog of 5-60 overdue promises and 0-10 expired locks created through the API; then the clock jumps and the kernel is ticked (one background cycle per signal timeout). Oracle: every Tick returns (5 s watchdog: the kernel is the only consumer of its completion queue), and the backlog is worked off: no overdue pending promise / expired lock remains once ticks have continued for the bound (cycles needed by the smallest batch + slack, refusals for a full queue only delay); it is a violation only if nothing changes in the database for 2 s of continued ticking and then for another 15 s of ticking at a slow pace (20 ms between ticks, so that a lagging store worker on a busy machine cannot be the reason) while overdue work remains. Non-trivial: a sweep batch larger than the completion or the store queue. Distinct = configuration shape.")
	defer stats.Write()
	dir := core.Scratch("verif-c11b-")
	defer os.RemoveAll(dir)
	n := 0
	rapid.Check(t, func(rt *rapid.T) {
		n++
		stats.Eval()
		m := metrics.New(prometheus.NewRegistry())
		cqSize := rapid.SampledFrom([]int{1, 2, 4, 8, 100}).Draw(rt, "aioSize")
		sqSize := rapid.SampledFrom([]int{1, 2, 4, 8, 100}).Draw(rt, "storeSize")
		cfg := &system.Config{
			Url:                 "http://localhost",
			CoroutineMaxSize:    rapid.SampledFrom([]int{5, 8, 100}).Draw(rt, "pool"),
			SubmissionBatchSize: rapid.SampledFrom([]int{1, 4, 50}).Draw(rt, "sbs"),
			CompletionBatchSize: rapid.SampledFrom([]int{1, 4, 50}).Draw(rt, "cbs"),
			PromiseBatchSize:    rapid.SampledFrom([]int{1, 5, 100}).Draw(rt, "pbs"),
			ScheduleBatchSize:   rapid.SampledFrom([]int{1, 5, 100}).Draw(rt, "schbs"),
			TaskBatchSize:       rapid.SampledFrom([]int{1, 5, 100}).Draw(rt, "tbs"),
			TaskEnqueueDelay:    time.Second,
			SignalTimeout:       time.Second,
		}
		ap := api.New(1000, m)
		ai := aio.New(cqSize, m)
		path := filepath.Join(dir, fmt.Sprintf("c%d.db", n))
		defer os.Remove(path)
		st, err := sqlite.New(ai, m, &sqlite.Config{Size: sqSize, BatchSize: rapid.SampledFrom([]int{1, 4, 16}).Draw(rt, "storeBatch"), Path: path, TxTimeout: 10 * time.Second})
		if err != nil {
			rt.Fatalf("harness: %v", err)
		}
		rtr, err := router.New(ai, m, &router.Config{Size: 100, Workers: 1})
		if err != nil {
			rt.Fatalf("harness: %v", err)
		}
		ai.AddSubsystem(st)
		ai.AddSubsystem(rtr)
		if err := ai.Start(); err != nil {
			rt.Fatalf("harness: %v", err)
		}
		stopped := false
		_ = stopped
		sys := system.New(ap, ai, cfg, m)
		sys.AddOnRequest(t_api.CreatePromise, coroutines.CreatePromise)
		sys.AddOnRequest(t_api.AcquireLock, coroutines.AcquireLock)
		obs, err := sql.Open("sqlite3", "file:"+path+"?mode=ro&_busy_timeout=5000")
		if err != nil {
			rt.Fatalf("harness: %v", err)
		}
		defer obs.Close()
		count := func(q string, args ...any) int {
			var c int
			if err := obs.QueryRow(q, args...).Scan(&c); err != nil {
				return -1
			}
			return c
		}
		now := int64(1_700_000_000_000)
		tick := func() {
			done := make(chan struct{})
			go func(t int64) { sys.Tick(t); close(done) }(now)
			select {
			case <-done:
			case <-time.After(5 * time.Second):
				stopped = true // the blocked goroutine keeps the queues; nothing to stop cleanly
				msg := fmt.Sprintf("the kernel blocked inside Tick (5 s) with completion queue %d, store queue %d, %s: background work can never converge", cqSize, sqSize, cfg)
				core.SaveFailure("last", map[string]any{"violation": msg})
				rt.Fatalf("VIOLATION C11 %s", msg)
			}
		}
		// ---- phase 1: the backlog, through the API (refusals for a full queue are retried) ----
		np := rapid.IntRange(5, 60).Draw(rt, "promises")
		nl := rapid.IntRange(0, 10).Draw(rt, "locks")
		pending := 0
		submit := func(req *t_api.Request) {
			pending++
			req.Tags = map[string]string{"id": fmt.Sprintf("q%d", pending), "name": req.Kind.String()}
			ap.EnqueueSQE(&bus.SQE[t_api.Request, t_api.Response]{Id: req.Tags["id"], Submission: req, Callback: func(*t_api.Response, error) {}})
		}
		for round := 0; round < 200; round++ {
			have := count("SELECT COUNT(*) FROM promises")
			haveL := count("SELECT COUNT(*) FROM locks")
			if have >= np && haveL >= nl {
				break
			}
			for i := 0; i < np; i++ {
				submit(&t_api.Request{Kind: t_api.CreatePromise, CreatePromise: &t_api.CreatePromiseRequest{Id: fmt.Sprintf("p%d", i), Timeout: now + int64(100+i)}})
			}
			for i := 0; i < nl; i++ {
				submit(&t_api.Request{Kind: t_api.AcquireLock, AcquireLock: &t_api.AcquireLockRequest{ResourceId: fmt.Sprintf("r%d", i), ExecutionId: "e", ProcessId: "w", Ttl: 200}})
			}
			for k := 0; k < 30; k++ {
				tick()
				time.Sleep(time.Millisecond)
			}
		}
		if count("SELECT COUNT(*) FROM promises") < np {
			rt.Skip("the backlog could not be built through these queues")
		}
		// ---- phase 2: all five... the four transport-free background coroutines, the clock jumps ----
		sys.AddBackground("TimeoutPromises", coroutines.TimeoutPromises)
		sys.AddBackground("SchedulePromises", coroutines.SchedulePromises)
		sys.AddBackground("TimeoutLocks", coroutines.TimeoutLocks)
		sys.AddBackground("TimeoutTasks", coroutines.TimeoutTasks)
		now += 10_000
		backlog := func() int {
			return count("SELECT COUNT(*) FROM promises WHERE state = 1 AND timeout <= ?", now-5000) + count("SELECT COUNT(*) FROM locks WHERE expires_at <= ?", now-5000)
		}
		last, lastChange := backlog(), time.Now()
		cycles := 0
		for last > 0 {
			for k := 0; k < 20; k++ {
				tick()
				time.Sleep(500 * time.Microsecond)
			}
			now += 1000
			cycles++
			if b := backlog(); b != last {
				last, lastChange = b, time.Now()
			}
			if time.Since(lastChange) > 2*time.Second && cycles > np+nl+20 {
				// confirmation at a slow pace: on a busy machine the store's worker goroutine can lag behind a harness that
				// ticks every 0.5 ms, and a queue of one then refuses nearly everything (that is delay by timing, not a
				// defect): with 20 ms between ticks the worker certainly runs between two submissions; only a backlog that
				// does not move for another 15 s of such ticking is reported
				moved := false
				for deadline, k := time.Now().Add(15*time.Second), 0; time.Now().Before(deadline) && !moved; k++ {
					tick()
					time.Sleep(20 * time.Millisecond)
					if k%5 == 4 {
						now += 1000
						cycles++
					}
					if b := backlog(); b != last {
						last, lastChange, moved = b, time.Now(), true
					}
				}
				if moved {
					stats.Class("slow-pace-confirmation-cleared")
					continue
				}
				msg := fmt.Sprintf("background processing does not converge: %d overdue promises / expired locks remain after %d cycles, 2 s of continued ticking and 15 s of ticking at a slow pace without any change (completion queue %d, store queue %d, %s)", last, cycles, cqSize, sqSize, cfg)
				core.SaveFailure("last", map[string]any{"violation": msg})
				rt.Fatalf("VIOLATION C11 %s", msg)
			}
		}
		// orderly end (as Loop does it): shut down, tick until nothing is in flight, only then stop the subsystems
		sys.Shutdown()
		for i := 0; i < 2000 && !sys.Done(); i++ {
			tick()
			time.Sleep(500 * time.Microsecond)
		}
		if sys.Done() {
			ai.Shutdown()
			_ = ai.Stop()
		}
		stopped = true
		stats.Class(fmt.Sprintf("cq=%d", cqSize))
		if cfg.PromiseBatchSize > cqSize || cfg.PromiseBatchSize > sqSize {
			stats.Nontriv(fmt.Sprintf("cq%d-sq%d-pbs%d-pool%d-sbs%d-cbs%d", cqSize, sqSize, cfg.PromiseBatchSize, cfg.CoroutineMaxSize, cfg.SubmissionBatchSize, cfg.CompletionBatchSize), map[string]any{"config": cfg.String(), "completion_queue": cqSize, "store_queue": sqSize, "cycles": cycles})
		}
	})
}
