// Package core holds what every /verif engine shares: the statistics collector that
// becomes an evidence file, generic table snapshots and diffs of the five resonate tables,
// and small helpers. It is compiled only through the overlay (see /verif/check).
package core

import (
	"crypto/sha1"
	"database/sql"
	"encoding/hex"
	"encoding/json"
	"fmt"
	"os"
	"path/filepath"
	"reflect"
	"sort"
	"strconv"
	"strings"
	"sync"
	"time"
)

// ---------------------------------------------------------------------------
// environment

func Env(k, def string) string {
	if v := os.Getenv(k); v != "" {
		return v
	}
	return def
}

func EnvInt(k string, def int) int {
	if v := os.Getenv(k); v != "" {
		if n, err := strconv.Atoi(v); err == nil {
			return n
		}
	}
	return def
}

func Tier() string { return Env("VERIF_TIER", "quick") }

// Scratch returns a fresh scratch directory (tmpfs when available).
func Scratch(prefix string) string {
	base := Env("VERIF_SCRATCH", "")
	if base == "" {
		base = "/dev/shm"
		if _, err := os.Stat(base); err != nil {
			base = os.TempDir()
		}
	}
	dir, err := os.MkdirTemp(base, prefix)
	if err != nil {
		panic(err)
	}
	return dir
}

// ---------------------------------------------------------------------------
// statistics -> evidence

// Stats is what a test binary reports to the driver (one file per process/shard).
type Stats struct {
	mu          sync.Mutex
	Property    string           `json:"property"`
	Evaluations int              `json:"evaluations"`
	Nontrivial  int              `json:"nontrivial"`
	Signatures  map[string]int   `json:"signatures"` // distinct non-trivial case signatures (hash -> count)
	Classes     map[string]int   `json:"classes"`    // label histogram
	Samples     []any            `json:"samples"`
	Excluded    map[string]int   `json:"excluded"` // inputs excluded by construction (known findings), counted
	Known       map[string]int   `json:"known"`    // known findings observed (key -> count)
	Violations  []map[string]any `json:"violations"`
	Rule        string           `json:"rule"`
	Extra       map[string]any   `json:"extra"`
	start       time.Time
	maxSamples  int
}

func NewStats(prop, rule string) *Stats {
	return &Stats{Property: prop, Rule: rule, Signatures: map[string]int{}, Classes: map[string]int{}, Excluded: map[string]int{},
		Known: map[string]int{}, Extra: map[string]any{}, start: time.Now(), maxSamples: 4}
}

func (s *Stats) Eval() {
	s.mu.Lock()
	s.Evaluations++
	s.mu.Unlock()
}

func (s *Stats) Class(label string) {
	s.mu.Lock()
	s.Classes[label]++
	s.mu.Unlock()
}

func (s *Stats) ClassN(label string, n int) {
	s.mu.Lock()
	s.Classes[label] += n
	s.mu.Unlock()
}

func (s *Stats) Exclude(label string) {
	s.mu.Lock()
	s.Excluded[label]++
	s.mu.Unlock()
}

func (s *Stats) KnownFinding(key string) {
	s.mu.Lock()
	s.Known[key]++
	s.mu.Unlock()
}

// Nontriv records a non-trivial case with its canonical signature; sample is kept for the first few distinct ones.
func (s *Stats) Nontriv(signature string, sample any) {
	h := sha1.Sum([]byte(signature))
	k := hex.EncodeToString(h[:8])
	s.mu.Lock()
	defer s.mu.Unlock()
	s.Nontrivial++
	if s.Signatures[k] == 0 && len(s.Samples) < s.maxSamples {
		s.Samples = append(s.Samples, sample)
	}
	s.Signatures[k]++
}

func (s *Stats) Violation(v map[string]any) {
	s.mu.Lock()
	s.Violations = append(s.Violations, v)
	s.mu.Unlock()
}

// Write stores the stats where the driver expects them (VERIF_OUT); no-op without it.
func (s *Stats) Write() {
	out := os.Getenv("VERIF_OUT")
	if out == "" {
		return
	}
	s.mu.Lock()
	defer s.mu.Unlock()
	s.Extra["wall_s"] = time.Since(s.start).Seconds()
	b, err := json.Marshal(s)
	if err != nil {
		panic(err)
	}
	tmp := out + ".tmp"
	if err := os.WriteFile(tmp, b, 0o644); err != nil {
		panic(err)
	}
	_ = os.Rename(tmp, out)
}

// SaveFailure writes a human readable failure record into VERIF_FAILDIR (overwritten: the last one
// written during rapid's shrink is the minimal case).
func SaveFailure(name string, v any) string {
	dir := os.Getenv("VERIF_FAILDIR")
	if dir == "" {
		return ""
	}
	_ = os.MkdirAll(dir, 0o755)
	p := filepath.Join(dir, name+".json")
	b, err := json.MarshalIndent(v, "", " ")
	if err != nil {
		b = []byte(fmt.Sprintf("%q", fmt.Sprint(v)))
	}
	_ = os.WriteFile(p, b, 0o644)
	return p
}

// ---------------------------------------------------------------------------
// known findings

type Finding struct {
	Property    string `json:"property"`
	Key         string `json:"key"`
	Status      string `json:"status"` // known | fixed
	Signature   string `json:"signature"`
	Description string `json:"description"`
	Commit      string `json:"commit,omitempty"`
}

type Findings struct {
	Findings []Finding `json:"findings"`
}

var (
	findingsOnce sync.Once
	findings     Findings
)

// KnownKeys returns the set of finding keys with status "known" (read-only at run time).
func KnownKeys() map[string]bool {
	findingsOnce.Do(func() {
		p := Env("VERIF_KNOWN", "/verif/known_findings.json")
		if b, err := os.ReadFile(p); err == nil {
			_ = json.Unmarshal(b, &findings)
		}
	})
	out := map[string]bool{}
	for _, f := range findings.Findings {
		if f.Status == "known" {
			out[f.Key] = true
		}
	}
	return out
}

func IsKnown(key string) bool { return KnownKeys()[key] }

// ---------------------------------------------------------------------------
// snapshots of the five tables

type Row map[string]any

func (r Row) I(c string) int64 {
	switch x := r[c].(type) {
	case int64:
		return x
	case nil:
		return 0
	case float64:
		return int64(x)
	case string:
		n, _ := strconv.ParseInt(x, 10, 64)
		return n
	}
	panic(fmt.Sprintf("Row.I(%s): %T", c, r[c]))
}

func (r Row) S(c string) string {
	switch x := r[c].(type) {
	case nil:
		return ""
	case string:
		return x
	case []byte:
		return string(x)
	}
	return fmt.Sprint(r[c])
}

func (r Row) Null(c string) bool { return r[c] == nil }

// JSONMap decodes a JSON object column into a string map (nil/invalid -> empty map).
func (r Row) JSONMap(c string) map[string]string {
	m := map[string]string{}
	if s := r.S(c); s != "" {
		_ = json.Unmarshal([]byte(s), &m)
	}
	return m
}

type Snapshot map[string]map[string]Row // table -> key -> row

var TableKeys = map[string]string{"promises": "id", "callbacks": "id", "schedules": "id", "locks": "resource_id", "tasks": "id"}
var TableNames = []string{"callbacks", "locks", "promises", "schedules", "tasks"}

func Snap(db *sql.DB) Snapshot {
	s := Snapshot{}
	for _, tbl := range TableNames {
		key := TableKeys[tbl]
		s[tbl] = map[string]Row{}
		rows, err := db.Query("SELECT * FROM " + tbl)
		if err != nil {
			panic(fmt.Sprintf("snapshot %s: %v", tbl, err))
		}
		cols, _ := rows.Columns()
		for rows.Next() {
			vals := make([]any, len(cols))
			ptrs := make([]any, len(cols))
			for i := range vals {
				ptrs[i] = &vals[i]
			}
			if err := rows.Scan(ptrs...); err != nil {
				panic(err)
			}
			r := Row{}
			for i, c := range cols {
				v := vals[i]
				if b, ok := v.([]byte); ok {
					v = string(b)
				}
				r[c] = v
			}
			s[tbl][fmt.Sprint(r[key])] = r
		}
		rows.Close()
	}
	return s
}

func (s Snapshot) Keys(tbl string) []string {
	ks := make([]string, 0, len(s[tbl]))
	for k := range s[tbl] {
		ks = append(ks, k)
	}
	sort.Strings(ks)
	return ks
}

type Change struct {
	Table, Key    string
	Before, After Row
}

func (c Change) String() string {
	return fmt.Sprintf("%s[%s]: %s -> %s", c.Table, c.Key, RowString(c.Before), RowString(c.After))
}

func RowString(r Row) string {
	if r == nil {
		return "∅"
	}
	ks := make([]string, 0, len(r))
	for k := range r {
		ks = append(ks, k)
	}
	sort.Strings(ks)
	var sb strings.Builder
	sb.WriteString("{")
	for i, k := range ks {
		if i > 0 {
			sb.WriteString(" ")
		}
		fmt.Fprintf(&sb, "%s=%v", k, r[k])
	}
	sb.WriteString("}")
	return sb.String()
}

// Diff lists changed rows in deterministic (table, key) order.
func Diff(a, b Snapshot) []Change {
	var out []Change
	for _, tbl := range TableNames {
		keys := map[string]bool{}
		for k := range a[tbl] {
			keys[k] = true
		}
		for k := range b[tbl] {
			keys[k] = true
		}
		ks := make([]string, 0, len(keys))
		for k := range keys {
			ks = append(ks, k)
		}
		sort.Strings(ks)
		for _, k := range ks {
			ra, rb := a[tbl][k], b[tbl][k]
			if !reflect.DeepEqual(ra, rb) {
				out = append(out, Change{tbl, k, ra, rb})
			}
		}
	}
	return out
}

// DiffIgnoring is Diff with some columns removed from the comparison (e.g. sort_id).
func DiffIgnoring(a, b Snapshot, ignore ...string) []Change {
	strip := func(s Snapshot) Snapshot {
		o := Snapshot{}
		for t, rows := range s {
			o[t] = map[string]Row{}
			for k, r := range rows {
				n := Row{}
				for c, v := range r {
					skip := false
					for _, ig := range ignore {
						if c == ig {
							skip = true
						}
					}
					if !skip {
						n[c] = v
					}
				}
				o[t][k] = n
			}
		}
		return o
	}
	return Diff(strip(a), strip(b))
}

func ChangesString(cs []Change) string {
	var sb strings.Builder
	for _, c := range cs {
		sb.WriteString(c.String())
		sb.WriteString("\n")
	}
	return sb.String()
}

// NormChanges renders changes without sort_id, for equality between two runs.
func NormChanges(cs []Change) string {
	var sb strings.Builder
	for _, c := range cs {
		b, a := Row{}, Row{}
		for k, v := range c.Before {
			if k != "sort_id" {
				b[k] = v
			}
		}
		for k, v := range c.After {
			if k != "sort_id" {
				a[k] = v
			}
		}
		var jb, ja []byte
		if c.Before != nil {
			jb, _ = json.Marshal(b)
		}
		if c.After != nil {
			ja, _ = json.Marshal(a)
		}
		fmt.Fprintf(&sb, "%s[%s] %s => %s\n", c.Table, c.Key, jb, ja)
	}
	return sb.String()
}

// Load replaces the contents of the five tables of db by the snapshot (used by sequential re-runs).
func Load(db *sql.DB, sn Snapshot) {
	for _, tbl := range TableNames {
		if _, err := db.Exec("DELETE FROM " + tbl); err != nil {
			panic(err)
		}
		for _, key := range sn.Keys(tbl) {
			row := sn[tbl][key]
			cols := make([]string, 0, len(row))
			for c := range row {
				cols = append(cols, c)
			}
			sort.Strings(cols)
			ph, vals := []string{}, []any{}
			for _, c := range cols {
				v := row[c]
				ph = append(ph, "?")
				if str, ok := v.(string); ok && blobColumn(c) {
					vals = append(vals, []byte(str))
				} else {
					vals = append(vals, v)
				}
			}
			if _, err := db.Exec(fmt.Sprintf("INSERT INTO %s (%s) VALUES (%s)", tbl, strings.Join(cols, ","), strings.Join(ph, ",")), vals...); err != nil {
				panic(err)
			}
		}
	}
}

func blobColumn(c string) bool {
	return strings.HasSuffix(c, "headers") || strings.HasSuffix(c, "data") || c == "tags" || c == "recv" || c == "mesg" || c == "promise_tags"
}

// Hash returns a short stable hash.
func Hash(s string) string {
	h := sha1.Sum([]byte(s))
	return hex.EncodeToString(h[:6])
}
