package core

import (
	"context"
	"database/sql"
	"database/sql/driver"
	"errors"
	"strings"
	"sync"

	sqlite3 "github.com/mattn/go-sqlite3"
)

// Hooks instruments a database/sql connection at the driver level: every statement execution is
// counted, may be failed (FailAt = index of the statement inside the current batch) and is announced
// before it runs (Before), so that an observer can look at the database at every statement boundary.
type Hooks struct {
	mu      sync.Mutex
	N       int // statements executed since Reset
	FailAt  int // fail the statement with this index (-1 = none); -2 = fail the commit
	Failed  bool
	Before  func(n int, query string)
	Queries []string
}

func (h *Hooks) Reset(failAt int) {
	h.mu.Lock()
	h.N, h.FailAt, h.Failed, h.Queries = 0, failAt, false, nil
	h.mu.Unlock()
}

var errInjected = errors.New("injected statement failure")

func (h *Hooks) stmt(q string) error {
	h.mu.Lock()
	n := h.N
	h.N++
	fail := h.FailAt == n
	if fail {
		h.Failed = true
	}
	h.Queries = append(h.Queries, strings.Join(strings.Fields(q), " "))
	before := h.Before
	h.mu.Unlock()
	if before != nil {
		before(n, q)
	}
	if fail {
		return errInjected
	}
	return nil
}

type hookConnector struct {
	dsn string
	drv *sqlite3.SQLiteDriver
	h   *Hooks
}

func (c *hookConnector) Connect(context.Context) (driver.Conn, error) {
	conn, err := c.drv.Open(c.dsn)
	if err != nil {
		return nil, err
	}
	return &hookConn{Conn: conn, h: c.h}, nil
}
func (c *hookConnector) Driver() driver.Driver { return c.drv }

// OpenHooked opens path with the instrumented driver.
func OpenHooked(path string, h *Hooks) *sql.DB {
	return sql.OpenDB(&hookConnector{dsn: path, drv: &sqlite3.SQLiteDriver{}, h: h})
}

type hookConn struct {
	driver.Conn
	h *Hooks
}

func (c *hookConn) PrepareContext(ctx context.Context, q string) (driver.Stmt, error) {
	st, err := c.Conn.(driver.ConnPrepareContext).PrepareContext(ctx, q)
	if err != nil {
		return nil, err
	}
	return &hookStmt{Stmt: st, q: q, h: c.h}, nil
}
func (c *hookConn) Prepare(q string) (driver.Stmt, error) {
	return c.PrepareContext(context.Background(), q)
}
func (c *hookConn) BeginTx(ctx context.Context, opts driver.TxOptions) (driver.Tx, error) {
	tx, err := c.Conn.(driver.ConnBeginTx).BeginTx(ctx, opts)
	if err != nil {
		return nil, err
	}
	return &hookTx{Tx: tx, h: c.h}, nil
}
func (c *hookConn) ExecContext(ctx context.Context, q string, args []driver.NamedValue) (driver.Result, error) {
	if err := c.h.stmt(q); err != nil {
		return nil, err
	}
	return c.Conn.(driver.ExecerContext).ExecContext(ctx, q, args)
}
func (c *hookConn) QueryContext(ctx context.Context, q string, args []driver.NamedValue) (driver.Rows, error) {
	if err := c.h.stmt(q); err != nil {
		return nil, err
	}
	return c.Conn.(driver.QueryerContext).QueryContext(ctx, q, args)
}

type hookTx struct {
	driver.Tx
	h *Hooks
}

func (t *hookTx) Commit() error {
	t.h.mu.Lock()
	fail := t.h.FailAt == -2
	if fail {
		t.h.Failed = true
	}
	t.h.mu.Unlock()
	if fail {
		_ = t.Tx.Rollback()
		return errInjected
	}
	return t.Tx.Commit()
}

type hookStmt struct {
	driver.Stmt
	q string
	h *Hooks
}

func (s *hookStmt) ExecContext(ctx context.Context, args []driver.NamedValue) (driver.Result, error) {
	if err := s.h.stmt(s.q); err != nil {
		return nil, err
	}
	return s.Stmt.(driver.StmtExecContext).ExecContext(ctx, args)
}
func (s *hookStmt) QueryContext(ctx context.Context, args []driver.NamedValue) (driver.Rows, error) {
	if err := s.h.stmt(s.q); err != nil {
		return nil, err
	}
	return s.Stmt.(driver.StmtQueryContext).QueryContext(ctx, args)
}
func (s *hookStmt) Exec(args []driver.Value) (driver.Result, error) {
	if err := s.h.stmt(s.q); err != nil {
		return nil, err
	}
	return s.Stmt.Exec(args)
}
func (s *hookStmt) Query(args []driver.Value) (driver.Rows, error) {
	if err := s.h.stmt(s.q); err != nil {
		return nil, err
	}
	return s.Stmt.Query(args)
}
