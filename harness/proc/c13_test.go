package proc

import (
	"context"
	"encoding/json"
	"fmt"
	"github.com/resonatehq/resonate/pkg/promise"
	"math"
	"net/url"
	"os"
	"regexp"
	"sort"
	"strconv"
	"strings"
	"sync"
	"testing"
	"time"

	"github.com/resonatehq/resonate/internal/app/subsystems/api/grpc/pb"
	"github.com/resonatehq/resonate/internal/kernel/t_api"
	"github.com/resonatehq/resonate/internal/verif/core"
	"google.golang.org/grpc/codes"
	"google.golang.org/grpc/status"
	"pgregory.net/rapid"
)

// ---------------------------------------------------------------------------
// hostile dictionary (the corpus: coverage-guided search does not find these constants by itself)

var hostile = []string{
	"null", "true", "false", "0", "-1", "[]", "{}", `""`, `"null"`, "{{", "{{.x", `{{template "x"}}`, "}}", "{{.id}}", "{{.timestamp}}", "{{ .id }", "{{range .}}", "{{.id.x}}", "{{call .id}}",
	"%", "_", "%%", ":", "::", "/", "//", "../..", "__invoke:", "__resume:a:b", "__notify:a:b", "\x00", "a\x00b", "%zz", "%2F", "%00", "a b", " ", "\t\n", "é", "日本", "‮", "<script>", "a&b=c", "?x=1#y", "'", `"`, "\\",
	`{"type":"poll","data":null}`, `{"type":"poll"}`, `{"type":"poll","data":{}}`, `{"type":"poll","data":{"group":null}}`, `{"type":"poll","data":[1]}`, `{"type":"poll","data":"x"}`, `{"type":"http","data":null}`,
	`{"type":"http","data":{"url":"://"}}`, `{"type":"http","data":{"url":"http://127.0.0.1:1/"}}`, `{"type":"http","data":{"url":""}}`, `{"type":"http","data":{"url":"http://[::1"}}`, `{"type":"http","data":{"headers":{"a":"b\nc"},"url":"http://127.0.0.1:1"}}`,
	`{"type":"x","data":{}}`, `{"type":"","data":{}}`, `{"type":null}`, `{"data":{}}`, `{"type":{"a":1}}`, "poll://", "poll:///", "poll://g/", "poll://g/i/j", "http://", "https://127.0.0.1:1/x", "http://127.0.0.1:1", "ftp://x", "://", "http://%zz", "http://[::1",
}

var firingCrons = []string{"* * * * * *", "*/1 * * * * *", "@every 1s", "CRON_TZ=UTC * * * * * *"}

var crons = []string{"* * * * * *", "*/1 * * * * *", "@every 1s", "* * * * *", "0 0 31 2 *", "0 0 30 2 *", "@every 0s", "@every -1s", "@every 100000h", "60 * * * *", "* * * * * * *", "", "bad", "@yearly", "@reboot", "TZ=Nowhere * * * * *", "CRON_TZ=UTC * * * * * *", "TZ=UTC", "CRON_TZ=UTC", "TZ=", "CRON_TZ=x", "TZ=UTC\t@hourly", "CRON_TZ=UTC\t*\t*\t*\t*\t*", "TZ=UTC\n@daily", "TZ=UTC\u00a0* * * * *", "*/0 * * * *", "1-0 * * * *", "* * * * 8", "0 0 1 1 * 2099"}

// ---------------------------------------------------------------------------

type step struct {
	HTTPReq
	invalid  bool // certainly invalid by the API's own schema: must be answered 400 / InvalidArgument
	noTrace  bool // answered with a client error => no row with the scenario prefix may appear
	mutation string
}

type scenario struct {
	name   string
	pfx    string
	steps  []step
	labels []string // what the generator chose, for the evidence's distribution
}

type gen struct {
	t   *rapid.T
	n   int
	now int64
	rot map[string]int
}

// walk: stratified choice from a dictionary — the first use in a batch draws a starting point, later uses step through
// the list, so that a batch with k uses covers k different entries (independent draws from a list of 25 leave a third of
// it untouched in a quick run; the entries are the corpus, each should be used)
func (g *gen) walk(xs []string, l string) string {
	if g.rot == nil {
		g.rot = map[string]int{}
	}
	i, ok := g.rot[l]
	if !ok {
		i = rapid.IntRange(0, len(xs)-1).Draw(g.t, l+".start")
	}
	g.rot[l] = i + 1
	return xs[i%len(xs)]
}

func (g *gen) pick(xs []string, l string) string { return rapid.SampledFrom(xs).Draw(g.t, l) }
func (g *gen) hostile(l string) string {
	if rapid.IntRange(0, 9).Draw(g.t, l+".gen") == 0 {
		return rapid.StringN(0, 12, 40).Draw(g.t, l+".str")
	}
	return g.pick(hostile, l)
}

func post(path string, body any, hdr map[string]string) HTTPReq {
	b, err := json.Marshal(body)
	if err != nil {
		b = []byte(fmt.Sprint(body))
	}
	return HTTPReq{Method: "POST", Path: path, Body: string(b), Headers: hdr}
}

func esc(s string) string { return strings.ReplaceAll(url.PathEscape(s), "%2F", "/") }

// mutateValue returns a replacement for a JSON field value.
func (g *gen) mutateValue(l string) (v any, kind string, absent bool) {
	switch k := rapid.IntRange(0, 15).Draw(g.t, l+".mut"); k {
	case 0:
		return nil, "absent", true
	case 1:
		return "", "empty", false
	case 2:
		return nil, "null", false
	case 3:
		return -1, "negative", false
	case 4:
		return 0, "zero", false
	case 5:
		return int64(1) << 31, "2^31", false
	case 6:
		return -(int64(1) << 31) - 1, "-2^31-1", false
	case 7:
		return int64(1<<63 - 1), "2^63-1", false
	case 8:
		return json.RawMessage("1e100"), "1e100", false
	case 9:
		return json.RawMessage("-9223372036854775809"), "-2^63-1", false
	case 10:
		return []any{1, "a"}, "array", false
	case 11:
		return map[string]any{"a": map[string]any{"b": 1}}, "object", false
	case 12:
		return true, "bool", false
	case 13:
		return strings.Repeat("A", 65536), "huge", false
	default:
		return g.hostile(l + ".hostile"), "hostile", false
	}
}

func ms(d int64) int64 { return time.Now().UnixMilli() + d }

// scenarios -----------------------------------------------------------------

func (g *gen) next() scenario {
	g.n++
	pfx := fmt.Sprintf("s%d-", g.n)
	k := rapid.IntRange(0, 12).Draw(g.t, "scenario")
	if only := os.Getenv("VERIF_C13_ONLY"); only != "" { // focused exploration of one scenario kind (development aid; not used by the registered commands)
		k = map[string]int{"status-walk": 10, "mutated": 0, "tagged": 3, "registration": 4, "schedule": 6, "cursor": 8, "grpc": 9, "lease-edge": 12}[only]
	}
	switch k {
	case 10, 11:
		return g.statusWalk(pfx)
	case 12:
		return g.leaseEdge(pfx)
	case 0, 1, 2:
		return g.mutatedRequest(pfx)
	case 3:
		return g.taggedPromise(pfx)
	case 4, 5:
		return g.registration(pfx)
	case 6, 7:
		return g.schedule(pfx)
	case 8:
		return g.cursor(pfx)
	default:
		return g.grpc(pfx)
	}
}

type skeleton struct {
	name     string
	method   string
	path     string
	body     map[string]any
	required []string // fields whose absence/emptiness/wrong type is certainly invalid
	strs     []string // string-typed fields (a number/array/object there is certainly invalid)
}

func (g *gen) skeletons(pfx string) []skeleton {
	id := pfx + "p"
	return []skeleton{
		{"createPromise", "POST", "/promises", map[string]any{"id": id, "timeout": ms(400), "param": map[string]any{"headers": map[string]any{"a": "b"}, "data": "eA=="}, "tags": map[string]any{"k": "v"}}, []string{"id"}, []string{"id"}},
		{"createPromiseAndTask", "POST", "/promises/task", map[string]any{"promise": map[string]any{"id": id, "timeout": ms(400), "tags": map[string]any{"resonate:invoke": "poll://g/w"}}, "task": map[string]any{"processId": "w", "ttl": 100}}, []string{"promise", "task"}, nil},
		{"completePromise", "PATCH", "/promises/" + id, map[string]any{"state": "RESOLVED", "value": map[string]any{"data": "eQ=="}}, []string{"state"}, []string{"state"}},
		{"createCallback", "POST", "/callbacks", map[string]any{"Id": pfx + "cb", "promiseId": id, "rootPromiseId": pfx + "r", "timeout": ms(60000), "recv": "poll://g/w"}, []string{"Id", "promiseId", "rootPromiseId", "recv"}, []string{"Id", "promiseId", "rootPromiseId"}},
		{"createSubscription", "POST", "/subscriptions", map[string]any{"Id": pfx + "sub", "promiseId": id, "timeout": ms(60000), "recv": map[string]any{"type": "poll", "data": map[string]any{"group": "g"}}}, []string{"Id", "promiseId", "recv"}, []string{"Id", "promiseId"}},
		{"createSchedule", "POST", "/schedules", map[string]any{"id": pfx + "sch", "desc": "d", "cron": "* * * * * *", "tags": map[string]any{}, "promiseId": pfx + "sch.{{.timestamp}}", "promiseTimeout": 500, "promiseParam": map[string]any{"data": "eA=="}, "promiseTags": map[string]any{"a": "b"}}, []string{"id", "cron", "promiseId"}, []string{"id", "cron", "promiseId"}},
		{"acquireLock", "POST", "/locks/acquire", map[string]any{"resourceId": pfx + "res", "executionId": "e", "processId": "w", "ttl": 300}, []string{"resourceId", "executionId", "processId"}, []string{"resourceId", "executionId", "processId"}},
		{"releaseLock", "POST", "/locks/release", map[string]any{"resourceId": pfx + "res", "executionId": "e"}, []string{"resourceId", "executionId"}, []string{"resourceId", "executionId"}},
		{"heartbeatLocks", "POST", "/locks/heartbeat", map[string]any{"processId": "w"}, []string{"processId"}, []string{"processId"}},
		{"claimTask", "POST", "/tasks/claim", map[string]any{"id": "__invoke:" + id, "counter": 1, "processId": "w", "ttl": 100}, []string{"id", "counter", "processId"}, []string{"id", "processId"}},
		{"completeTask", "POST", "/tasks/complete", map[string]any{"id": "__invoke:" + id, "counter": 1}, []string{"id", "counter"}, []string{"id"}},
		{"heartbeatTasks", "POST", "/tasks/heartbeat", map[string]any{"processId": "w"}, []string{"processId"}, []string{"processId"}},
	}
}

func contains(xs []string, x string) bool {
	for _, y := range xs {
		if x == y {
			return true
		}
	}
	return false
}

// mutatedRequest: one endpoint, one field mutated (possibly nested), optionally preceded by the valid prerequisites.
func (g *gen) mutatedRequest(pfx string) scenario {
	sks := g.skeletons(pfx)
	sk := sks[rapid.IntRange(0, len(sks)-1).Draw(g.t, "endpoint")]
	sc := scenario{name: "mutated:" + sk.name, pfx: pfx}
	// whole-body mutations
	if rapid.IntRange(0, 7).Draw(g.t, "wholebody") == 0 {
		body := g.pick([]string{"", "null", "[]", "{", `"x"`, "1", "{}", `{"id":`, strings.Repeat("[", 10000), `{"a":` + strings.Repeat(`{"a":`, 2000) + "1" + strings.Repeat("}", 2001)}, "body")
		st := step{HTTPReq: HTTPReq{Method: sk.method, Path: sk.path, Body: body, Headers: map[string]string{"Content-Type": "application/json"}}, mutation: "body=" + truncate(body, 20), noTrace: true}
		st.invalid = len(sk.required) > 0
		sc.steps = append(sc.steps, st)
		return sc
	}
	body := map[string]any{}
	for k, v := range sk.body {
		body[k] = v
	}
	keys := make([]string, 0, len(body))
	for k := range body {
		keys = append(keys, k)
	}
	sort.Strings(keys)
	field := keys[rapid.IntRange(0, len(keys)-1).Draw(g.t, "field")]
	target := body
	path := field
	// descend into nested objects sometimes
	if m, ok := body[field].(map[string]any); ok && len(m) > 0 && rapid.Bool().Draw(g.t, "descend") {
		inner := map[string]any{}
		var iks []string
		for k, v := range m {
			inner[k] = v
			iks = append(iks, k)
		}
		sort.Strings(iks)
		body[field] = inner
		target = inner
		field = iks[rapid.IntRange(0, len(iks)-1).Draw(g.t, "innerfield")]
		path += "." + field
	}
	v, kind, absent := g.mutateValue("value")
	if absent {
		delete(target, field)
	} else {
		target[field] = v
	}
	st := step{HTTPReq: post(sk.path, body, nil), mutation: fmt.Sprintf("%s=%s", path, kind), noTrace: true}
	st.Method = sk.method
	top := strings.SplitN(path, ".", 2)[0]
	if path == top && contains(sk.required, top) && (kind == "absent" || kind == "empty" || kind == "null") {
		// a receiver is free-form JSON (the empty string is a logical name, null is merely undeliverable): only its absence is certainly invalid
		st.invalid = top != "recv" || kind == "absent"
	}
	if path == top && contains(sk.strs, top) && (kind == "array" || kind == "object" || kind == "bool" || kind == "negative" || kind == "2^31") {
		st.invalid = true
	}
	if strings.HasSuffix(path, "ttl") && (kind == "negative" || kind == "-2^31-1" || kind == "-2^63-1") {
		st.invalid = true
	}
	// a mutated header as well, sometimes
	if rapid.IntRange(0, 5).Draw(g.t, "hdr") == 0 {
		st.Headers = map[string]string{g.pick([]string{"idempotency-key", "strict", "request-id"}, "hdrname"): g.pick([]string{"", "notabool", "1", strings.Repeat("k", 9000), "é", "a b"}, "hdrval")}
	}
	sc.steps = append(sc.steps, st)
	return sc
}

// taggedPromise: stored promises with hostile tag values (routing, time-out behaviour) and ids, then read/searched/timed out.
func (g *gen) taggedPromise(pfx string) scenario {
	sc := scenario{name: "tagged-promise", pfx: pfx}
	id := pfx + g.pick([]string{"p", "a/b", "a b", "p%2Fq", "é", "{{.id}}", "p:q"}, "id")
	tags := map[string]any{}
	tags[g.pick([]string{"resonate:invoke", "resonate:invoke", "resonate:timeout", "resonate:schedule", "resonate:invocation", "x", ""}, "tagkey")] = g.hostile("tagval")
	if rapid.Bool().Draw(g.t, "second") {
		tags[g.pick([]string{"resonate:invoke", "a.b", "a[0]", "$", "'"}, "tagkey2")] = g.hostile("tagval2")
	}
	timeout := ms(int64(g.pick1([]int64{-1000, 0, 300, 300, 60000, 1<<62 - time.Now().UnixMilli()}, "timeout")))
	create := post("/promises", map[string]any{"id": id, "timeout": timeout, "tags": tags}, nil)
	if rapid.Bool().Draw(g.t, "withtask") {
		create = post("/promises/task", map[string]any{"promise": map[string]any{"id": id, "timeout": timeout, "tags": tags}, "task": map[string]any{"processId": g.hostile("proc"), "ttl": g.pick1([]int64{0, 100, 1 << 31}, "ttl")}}, nil)
	}
	sc.steps = append(sc.steps, step{HTTPReq: create, mutation: fmt.Sprintf("tags=%v", tags)})
	sc.steps = append(sc.steps, step{HTTPReq: HTTPReq{Method: "GET", Path: "/promises/" + esc(id)}})
	q := url.Values{}
	q.Set("id", pfx+"*")
	for k, v := range tags {
		q.Set("tags["+k+"]", fmt.Sprint(v))
	}
	sc.steps = append(sc.steps, step{HTTPReq: HTTPReq{Method: "GET", Path: "/promises?" + q.Encode()}, mutation: "search-by-hostile-tag"})
	if rapid.Bool().Draw(g.t, "complete") {
		sc.steps = append(sc.steps, step{HTTPReq: HTTPReq{Method: "PATCH", Path: "/promises/" + esc(id), Body: `{"state":"REJECTED_CANCELED"}`}})
	}
	return sc
}

// leaseEdge: leases whose end (clock + ttl) does not fit into 64 bits, or fits when granted and no longer when renewed
// (placeholders are filled in when the request is sent: @EDGE-n@ = largest int64 - clock - n ms, @NOW+n@ = clock + n ms).
// The lease is granted, renewed after a pause, used by its holder, and the task's promise times out within the batch's
// waiting time, so that every background coroutine has read the rows before the dispatch probe.
func (g *gen) leaseEdge(pfx string) scenario {
	sc := scenario{name: "lease-edge", pfx: pfx}
	ttl := g.pick([]string{`"@EDGE-250@"`, `"@EDGE-250@"`, `"@EDGE-0@"`, "9223372036854775807", `"@EDGE-60000@"`}, "edgettl")
	proc := pfx + "w"
	raw := func(m, path, body, note string) {
		sc.steps = append(sc.steps, step{HTTPReq: HTTPReq{Method: m, Path: path, Body: body, Headers: map[string]string{"Content-Type": "application/json"}}, mutation: note})
	}
	pause := step{HTTPReq: HTTPReq{Method: "PAUSE", Path: "400"}}
	if rapid.Bool().Draw(g.t, "edgetask") {
		id := pfx + "p"
		raw("POST", "/promises/task", fmt.Sprintf(`{"promise":{"id":%q,"timeout":"@NOW+1300@","tags":{"resonate:invoke":"poll://g/w"}},"task":{"processId":%q,"ttl":%s}}`, id, proc, ttl), "lease-edge create-with-task ttl="+ttl)
		sc.steps = append(sc.steps, pause)
		raw("POST", "/tasks/heartbeat", fmt.Sprintf(`{"processId":%q}`, proc), "lease-edge heartbeat")
		if rapid.Bool().Draw(g.t, "edgecomplete") {
			raw("POST", "/tasks/complete", fmt.Sprintf(`{"id":"__invoke:%s","counter":1}`, id), "lease-edge complete")
		} else {
			raw("POST", "/tasks/claim", fmt.Sprintf(`{"id":"__invoke:%s","counter":1,"processId":"other","ttl":%s}`, id, ttl), "lease-edge claim by another")
		}
		raw("GET", "/promises/"+id, "", "")
	} else {
		res := pfx + "res"
		raw("POST", "/locks/acquire", fmt.Sprintf(`{"resourceId":%q,"executionId":"e1","processId":%q,"ttl":%s}`, res, proc, ttl), "lease-edge acquire ttl="+ttl)
		sc.steps = append(sc.steps, pause)
		raw("POST", "/locks/heartbeat", fmt.Sprintf(`{"processId":%q}`, proc), "lease-edge heartbeat")
		raw("POST", "/locks/acquire", fmt.Sprintf(`{"resourceId":%q,"executionId":%q,"processId":%q,"ttl":1000}`, res, g.pick([]string{"e1", "e2"}, "edgeex"), proc), "lease-edge acquire again")
		raw("POST", "/locks/release", fmt.Sprintf(`{"resourceId":%q,"executionId":"e1"}`, res), "lease-edge release")
	}
	sc.labels = append(sc.labels, "lease-edge:"+ttl)
	return sc
}

var edgeRe = regexp.MustCompile(`"@(EDGE-|NOW\+)(\d+)@"`)

// fillClock replaces the clock-relative placeholders of a request body at the moment the request is sent
func fillClock(body string) string {
	return edgeRe.ReplaceAllStringFunc(body, func(m string) string {
		sub := edgeRe.FindStringSubmatch(m)
		n, _ := strconv.ParseInt(sub[2], 10, 64)
		if sub[1] == "EDGE-" {
			return strconv.FormatInt(math.MaxInt64-time.Now().UnixMilli()-n, 10)
		}
		return strconv.FormatInt(time.Now().UnixMilli()+n, 10)
	})
}

func (g *gen) pick1(xs []int64, l string) int64 { return rapid.SampledFrom(xs).Draw(g.t, l) }

// registration: callback / subscription with a hostile receiver on a fresh promise, then the promise completes
// (explicitly or by time-out) so that the stored receiver is dispatched.
func (g *gen) registration(pfx string) scenario {
	sc := scenario{name: "registration", pfx: pfx}
	p, r := pfx+"p", pfx+"r"
	sc.steps = append(sc.steps, step{HTTPReq: post("/promises", map[string]any{"id": p, "timeout": ms(g.pick1([]int64{300, 60000}, "ptimeout"))}, nil)})
	sc.steps = append(sc.steps, step{HTTPReq: post("/promises", map[string]any{"id": r, "timeout": ms(60000)}, nil)})
	var recv any
	shape := rapid.IntRange(0, 4).Draw(g.t, "recvshape")
	sc.labels = append(sc.labels, []string{"recv:dictionary-string", "recv:raw-json", "recv:typed-hostile", "recv:poll-hostile-address", "recv:http-plugin"}[shape])
	switch shape {
	case 4: // receivers the real http plugin has to deliver to: nothing listening, refused, unresolvable, odd urls and headers
		recv = json.RawMessage(g.walk([]string{`{"type":"http","data":{"url":"http://127.0.0.1:1"}}`, `{"type":"http","data":{"url":"http://127.0.0.1:1/x","headers":{"a":"b"}}}`, `{"type":"http","data":{"url":"http://nowhere.invalid/"}}`, `{"type":"http","data":{"url":"https://127.0.0.1:1"}}`, `{"type":"http","data":{"url":"http://127.0.0.1:1","headers":{"a\nb":"c"}}}`, `{"type":"http","data":{"url":"http://[::1"}}`, `{"type":"http","data":{"url":"nope://x"}}`, `"http://127.0.0.1:1/y"`, `"https://nowhere.invalid"`}, "recvhttp"))
	case 0:
		recv = g.hostile("recv")
	case 1:
		recv = json.RawMessage(g.walk([]string{"null", "1", "true", "[]", "{}", `{"type":"poll","data":null}`, `{"type":"poll"}`, `{"type":null,"data":null}`, `{"type":"http","data":{"url":"http://127.0.0.1:1"}}`, `{"type":"poll","data":{"group":"g","id":7}}`, `{"type":"nope","data":{}}`, `"default"`, `""`}, "recvraw"))
	case 2:
		recv = map[string]any{"type": g.hostile("rtype"), "data": json.RawMessage(g.pick([]string{"null", "{}", `{"group":"g"}`, `"x"`, "[1]"}, "rdata"))}
	default:
		recv = map[string]any{"type": "poll", "data": map[string]any{"group": g.hostile("group"), "id": g.hostile("rid")}}
	}
	timeout := g.pick1([]int64{ms(60000), 0, -1, 1 << 62}, "ctimeout")
	if rapid.Bool().Draw(g.t, "sub") {
		sc.steps = append(sc.steps, step{HTTPReq: post("/subscriptions", map[string]any{"Id": g.pick([]string{"s", "a:b", "", "{{"}, "subid"), "promiseId": p, "timeout": timeout, "recv": recv}, nil), mutation: fmt.Sprintf("recv=%v", recv)})
	} else {
		root := g.pick([]string{r, p, "nonexistent", "a:b"}, "root")
		sc.steps = append(sc.steps, step{HTTPReq: post("/callbacks", map[string]any{"Id": "cb", "promiseId": p, "rootPromiseId": root, "timeout": timeout, "recv": recv}, nil), mutation: fmt.Sprintf("recv=%v root=%s", recv, root)})
	}
	if rapid.Bool().Draw(g.t, "complete") {
		sc.steps = append(sc.steps, step{HTTPReq: HTTPReq{Method: "PATCH", Path: "/promises/" + p, Body: `{"state":"RESOLVED"}`}})
	}
	return sc
}

// statusWalk: perfectly ordinary client behaviour that the server must REFUSE, through both protocols: every
// refusal status of the kernel (task not claimed / already claimed / wrong counter / finished, lock held by another
// execution, released by a stranger, promise or schedule already there / gone / already completed, registration on a
// missing promise) has to be rendered by each front end. A status one front end cannot render crashes or drops.
func (g *gen) statusWalk(pfx string) scenario {
	sc := scenario{name: "status-walk", pfx: pfx}
	id := pfx + "p"
	tid := "__invoke:" + id
	addH := func(m, path string, body any, note string) {
		st := step{HTTPReq: HTTPReq{Method: m, Path: path}, mutation: note}
		if body != nil {
			st.HTTPReq = post(path, body, nil)
			st.HTTPReq.Method = m
		}
		sc.steps = append(sc.steps, st)
	}
	addG := func(name string, f func(c *GrpcClients, ctx context.Context) error) {
		sc.steps = append(sc.steps, step{HTTPReq: HTTPReq{Method: "GRPC", Path: name, Grpc: f}, mutation: "status-walk " + name})
	}
	viaGrpc := func(l string) bool { return rapid.Bool().Draw(g.t, l) }
	claim := func(counter int, proc string) {
		if viaGrpc("g.claim") {
			addG("ClaimTask", func(c *GrpcClients, ctx context.Context) error {
				_, err := c.Tasks.ClaimTask(ctx, &pb.ClaimTaskRequest{Id: tid, Counter: int32(counter), ProcessId: proc, Ttl: 60000})
				return err
			})
		} else {
			addH("POST", "/tasks/claim", map[string]any{"id": tid, "counter": counter, "processId": proc, "ttl": 60000}, "status-walk claim")
		}
	}
	complete := func(counter int) {
		if viaGrpc("g.complete") {
			addG("CompleteTask", func(c *GrpcClients, ctx context.Context) error {
				_, err := c.Tasks.CompleteTask(ctx, &pb.CompleteTaskRequest{Id: tid, Counter: int32(counter)})
				return err
			})
		} else {
			addH("POST", "/tasks/complete", map[string]any{"id": tid, "counter": counter}, "status-walk complete")
		}
	}
	switch rapid.IntRange(0, 3).Draw(g.t, "walk") {
	case 0, 1: // task life cycle in a drawn order, with right and wrong counters, before and after the promise completes
		addH("POST", "/promises", map[string]any{"id": id, "timeout": ms(60000), "tags": map[string]any{"resonate:invoke": "poll://sw/" + pfx}}, "routed promise => task")
		for i := rapid.IntRange(2, 6).Draw(g.t, "nops"); i > 0; i-- {
			switch rapid.IntRange(0, 3).Draw(g.t, "taskop") {
			case 0:
				claim(rapid.IntRange(0, 2).Draw(g.t, "ccounter"), g.pick([]string{"w1", "w2"}, "cproc"))
			case 1:
				complete(rapid.IntRange(0, 2).Draw(g.t, "dcounter"))
			case 2:
				if viaGrpc("g.hb") {
					addG("HeartbeatTasks", func(c *GrpcClients, ctx context.Context) error {
						_, err := c.Tasks.HeartbeatTasks(ctx, &pb.HeartbeatTasksRequest{ProcessId: "w1"})
						return err
					})
				} else {
					addH("POST", "/tasks/heartbeat", map[string]any{"processId": "w1"}, "status-walk heartbeat")
				}
			default:
				if viaGrpc("g.resolve") {
					addG("ResolvePromise", func(c *GrpcClients, ctx context.Context) error {
						_, err := c.Promises.ResolvePromise(ctx, &pb.ResolvePromiseRequest{Id: id})
						return err
					})
				} else {
					addH("PATCH", "/promises/"+esc(id), map[string]any{"state": "RESOLVED"}, "status-walk resolve")
				}
			}
		}
	case 2: // locks: held by another execution, released by a stranger, heartbeat of nobody
		res := pfx + "res"
		for i := rapid.IntRange(2, 5).Draw(g.t, "nlock"); i > 0; i-- {
			ex := g.pick([]string{"e1", "e2"}, "lex")
			switch rapid.IntRange(0, 2).Draw(g.t, "lockop") {
			case 0:
				if viaGrpc("g.acq") {
					addG("AcquireLock", func(c *GrpcClients, ctx context.Context) error {
						_, err := c.Locks.AcquireLock(ctx, &pb.AcquireLockRequest{ResourceId: res, ExecutionId: ex, ProcessId: "w", Ttl: 60000})
						return err
					})
				} else {
					addH("POST", "/locks/acquire", map[string]any{"resourceId": res, "executionId": ex, "processId": "w", "ttl": 60000}, "status-walk acquire")
				}
			case 1:
				if viaGrpc("g.rel") {
					addG("ReleaseLock", func(c *GrpcClients, ctx context.Context) error {
						_, err := c.Locks.ReleaseLock(ctx, &pb.ReleaseLockRequest{ResourceId: res, ExecutionId: ex})
						return err
					})
				} else {
					addH("POST", "/locks/release", map[string]any{"resourceId": res, "executionId": ex}, "status-walk release")
				}
			default:
				if viaGrpc("g.lhb") {
					addG("HeartbeatLocks", func(c *GrpcClients, ctx context.Context) error {
						_, err := c.Locks.HeartbeatLocks(ctx, &pb.HeartbeatLocksRequest{ProcessId: "w"})
						return err
					})
				} else {
					addH("POST", "/locks/heartbeat", map[string]any{"processId": "w"}, "status-walk lock heartbeat")
				}
			}
		}
	default: // promises, registrations and schedules: already there, gone, already completed
		sid := pfx + "sch"
		for i := rapid.IntRange(3, 7).Draw(g.t, "nmisc"); i > 0; i-- {
			g1 := viaGrpc("g.misc")
			switch rapid.IntRange(0, 6).Draw(g.t, "miscop") {
			case 0:
				if g1 {
					addG("CreatePromise", func(c *GrpcClients, ctx context.Context) error {
						_, err := c.Promises.CreatePromise(ctx, &pb.CreatePromiseRequest{Id: id, Timeout: ms(60000), Strict: true})
						return err
					})
				} else {
					addH("POST", "/promises", map[string]any{"id": id, "timeout": ms(60000)}, "status-walk create")
				}
			case 1:
				st := g.pick([]string{"RESOLVED", "REJECTED", "REJECTED_CANCELED"}, "mstate")
				if g1 {
					addG("CompletePromise:"+st, func(c *GrpcClients, ctx context.Context) error {
						var err error
						switch st {
						case "RESOLVED":
							_, err = c.Promises.ResolvePromise(ctx, &pb.ResolvePromiseRequest{Id: id, Strict: true})
						case "REJECTED":
							_, err = c.Promises.RejectPromise(ctx, &pb.RejectPromiseRequest{Id: id, Strict: true})
						default:
							_, err = c.Promises.CancelPromise(ctx, &pb.CancelPromiseRequest{Id: id, Strict: true})
						}
						return err
					})
				} else {
					addH("PATCH", "/promises/"+esc(id), map[string]any{"state": st}, "status-walk complete promise")
				}
			case 2:
				if g1 {
					addG("CreateCallback", func(c *GrpcClients, ctx context.Context) error {
						_, err := c.Callbacks.CreateCallback(ctx, &pb.CreateCallbackRequest{Id: "cb", PromiseId: id, RootPromiseId: pfx + "root", Timeout: ms(60000), Recv: &pb.Recv{Recv: &pb.Recv_Logical{Logical: "default"}}})
						return err
					})
				} else {
					addH("POST", "/callbacks", map[string]any{"id": pfx + "cb", "promiseId": id, "rootPromiseId": pfx + "root", "timeout": ms(60000), "recv": "default"}, "status-walk callback")
				}
			case 3:
				if g1 {
					addG("CreateSubscription", func(c *GrpcClients, ctx context.Context) error {
						_, err := c.Subscriptions.CreateSubscription(ctx, &pb.CreateSubscriptionRequest{Id: "s", PromiseId: id, Timeout: ms(60000), Recv: &pb.Recv{Recv: &pb.Recv_Logical{Logical: "default"}}})
						return err
					})
				} else {
					addH("POST", "/subscriptions", map[string]any{"id": pfx + "s", "promiseId": id, "timeout": ms(60000), "recv": "default"}, "status-walk subscription")
				}
			case 4:
				if g1 {
					addG("CreateSchedule", func(c *GrpcClients, ctx context.Context) error {
						_, err := c.Schedules.CreateSchedule(ctx, &pb.CreateScheduleRequest{Id: sid, Cron: "0 0 1 1 *", PromiseId: pfx + "y.{{.timestamp}}", PromiseTimeout: 1000})
						return err
					})
				} else {
					addH("POST", "/schedules", map[string]any{"id": sid, "cron": "0 0 1 1 *", "promiseId": pfx + "y.{{.timestamp}}", "promiseTimeout": 1000}, "status-walk schedule")
				}
			case 5:
				if g1 {
					addG("DeleteSchedule", func(c *GrpcClients, ctx context.Context) error {
						_, err := c.Schedules.DeleteSchedule(ctx, &pb.DeleteScheduleRequest{Id: sid})
						return err
					})
				} else {
					addH("DELETE", "/schedules/"+esc(sid), nil, "status-walk delete schedule")
				}
			default:
				if g1 {
					addG("ReadSchedule", func(c *GrpcClients, ctx context.Context) error {
						_, err := c.Schedules.ReadSchedule(ctx, &pb.ReadScheduleRequest{Id: sid})
						return err
					})
				} else {
					addH("GET", "/promises/"+esc(id), nil, "status-walk read")
				}
			}
		}
	}
	return sc
}

// schedule: stored schedules with hostile templates, cron expressions and promise tags; they fire in the background.
func (g *gen) schedule(pfx string) scenario {
	sc := scenario{name: "schedule", pfx: pfx}
	// one hostile dimension at a time (the others ordinary, so that the request is accepted and the stored value gets
	// processed), or all of them together
	focus := rapid.SampledFrom([]string{"cron", "template", "fields", "all"}).Draw(g.t, "focus")
	sc.labels = append(sc.labels, "schedule-focus:"+focus)
	id := pfx + "sch"
	if focus == "fields" || focus == "all" {
		id = pfx + g.pick([]string{"sch", "a/b", "a<b&c", "{{.id}}", "é"}, "id")
	}
	tmpl := pfx + "{{.id}}.{{.timestamp}}"
	if focus == "template" || focus == "all" {
		tmpl = g.walk([]string{pfx + "{{.id}}.{{.timestamp}}", pfx + "fixed", "{{", "{{.x", "{{.id", "}}{{", `{{template "x"}}`, "{{.nope}}", "{{.id.x}}", "{{range .}}x{{end}}", "{{call .id}}", "{{printf \"%s\" .id}}", "{{index . \"id\"}}", pfx + "{{.timestamp}}", "", pfx + "{{/* c */}}x", "{{define \"t\"}}{{end}}", pfx + "{{len .}}", "{{html .id}}", "{{.id | js}}"}, "template")
	}
	cron := g.pick(firingCrons, "firingcron") // fires within the batch's wait: the stored template, tags and timeout get PROCESSED
	if focus == "cron" || (focus == "all" && rapid.Bool().Draw(g.t, "hostilecron")) {
		cron = g.walk(crons, "cron")
	}
	ptags := map[string]any{}
	body := map[string]any{"id": id, "cron": cron, "promiseId": tmpl, "promiseTimeout": 300}
	if focus == "fields" || focus == "all" {
		if rapid.Bool().Draw(g.t, "routed") {
			ptags["resonate:invoke"] = g.pick([]string{"poll://g/w", "default", `{"type":"poll","data":{"group":"g"}}`, "null", `{"type":"poll","data":null}`}, "ptagroute")
		}
		if rapid.IntRange(0, 3).Draw(g.t, "ptagtimeout") == 0 {
			ptags["resonate:timeout"] = g.hostile("ptimeouttag")
		}
		body = map[string]any{"id": id, "desc": g.hostile("desc"), "cron": cron, "tags": map[string]any{"k": g.hostile("stag")}, "promiseId": tmpl, "promiseTimeout": g.pick1([]int64{0, 1, 300, -1, 1 << 62, -(1 << 62)}, "ptimeout"),
			"promiseParam": map[string]any{"headers": map[string]any{"h": g.hostile("ph")}, "data": "eA=="}, "promiseTags": ptags}
	}
	st := step{HTTPReq: post("/schedules", body, nil), mutation: fmt.Sprintf("cron=%q template=%q ptags=%v", cron, tmpl, ptags)}
	if cron == "" || cron == "bad" || ((strings.HasPrefix(cron, "TZ=") || strings.HasPrefix(cron, "CRON_TZ=")) && !strings.Contains(cron, " ")) {
		st.invalid, st.noTrace = true, true
	}
	sc.steps = append(sc.steps, st)
	sc.labels = append(sc.labels, "cron:"+cron)
	if focus == "cron" {
		// the dictionary walk continues: two more schedules that differ from an ordinary one in their cron only
		for _, sfx := range []string{"-b", "-c"} {
			c2 := g.walk(crons, "cron")
			st2 := step{HTTPReq: post("/schedules", map[string]any{"id": id + sfx, "cron": c2, "promiseId": tmpl, "promiseTimeout": 300}, nil), mutation: fmt.Sprintf("cron=%q", c2)}
			if c2 == "" || c2 == "bad" || ((strings.HasPrefix(c2, "TZ=") || strings.HasPrefix(c2, "CRON_TZ=")) && !strings.Contains(c2, " ")) {
				st2.invalid = true
			}
			sc.steps = append(sc.steps, st2)
			sc.labels = append(sc.labels, "cron:"+c2)
		}
	}
	if rapid.IntRange(0, 2).Draw(g.t, "twin") == 0 {
		sc.labels = append(sc.labels, "schedule-with-twin")
		// a second schedule due in the same cycles whose promise id never changes: from its second firing on the promise
		// already exists (the cycle's other outcome), next to whatever the first schedule's template does
		sc.steps = append(sc.steps, step{HTTPReq: post("/schedules", map[string]any{"id": id + g.pick([]string{"-twin", "!", "0"}, "twinid"), "cron": g.pick(firingCrons, "twincron"), "promiseId": pfx + "twin-fixed", "promiseTimeout": 60000}, nil), mutation: "twin schedule with a constant promise id"})
	}
	sc.steps = append(sc.steps, step{HTTPReq: HTTPReq{Method: "GET", Path: "/schedules/" + esc(id)}})
	sc.steps = append(sc.steps, step{HTTPReq: HTTPReq{Method: "GET", Path: "/schedules?id=" + url.QueryEscape(pfx+"*")}})
	if rapid.IntRange(0, 3).Draw(g.t, "delete") == 0 {
		sc.steps = append(sc.steps, step{HTTPReq: HTTPReq{Method: "DELETE", Path: "/schedules/" + esc(id)}})
	}
	return sc
}

// cursor: forged and damaged cursors, odd query strings.
func (g *gen) cursor(pfx string) scenario {
	sc := scenario{name: "cursor", pfx: pfx}
	enc := func(c interface{ Encode() (string, error) }) string { s, _ := c.Encode(); return s }
	zero, neg := int64(0), int64(-5)
	forged := []string{
		enc(&t_api.Cursor[t_api.SearchPromisesRequest]{Next: nil}),
		enc(&t_api.Cursor[t_api.SearchPromisesRequest]{Next: &t_api.SearchPromisesRequest{}}),
		enc(&t_api.Cursor[t_api.SearchPromisesRequest]{Next: &t_api.SearchPromisesRequest{Id: "*", Limit: 0, Tags: map[string]string{}}}),
		enc(&t_api.Cursor[t_api.SearchPromisesRequest]{Next: &t_api.SearchPromisesRequest{Id: "", Limit: 10}}),
		enc(&t_api.Cursor[t_api.SearchPromisesRequest]{Next: &t_api.SearchPromisesRequest{Id: "*", Limit: -1, SortId: &neg}}),
		enc(&t_api.Cursor[t_api.SearchPromisesRequest]{Next: &t_api.SearchPromisesRequest{Id: "*", Limit: 1 << 30, SortId: &zero}}),
		enc(&t_api.Cursor[t_api.SearchPromisesRequest]{Next: &t_api.SearchPromisesRequest{Id: "*", Limit: 5, Tags: map[string]string{"": "x", "a.b": "c", "a[": "d"}}}),
		// exactly one field out of range, everything else as the kernel wants it
		enc(&t_api.Cursor[t_api.SearchPromisesRequest]{Next: &t_api.SearchPromisesRequest{Id: "*", States: []promise.State{promise.Pending}, Tags: map[string]string{}, Limit: 0}}),
		enc(&t_api.Cursor[t_api.SearchPromisesRequest]{Next: &t_api.SearchPromisesRequest{Id: "*", States: []promise.State{promise.Pending}, Tags: map[string]string{}, Limit: 101}}),
		enc(&t_api.Cursor[t_api.SearchPromisesRequest]{Next: &t_api.SearchPromisesRequest{Id: "*", States: []promise.State{promise.Pending}, Tags: map[string]string{}, Limit: -1}}),
		enc(&t_api.Cursor[t_api.SearchPromisesRequest]{Next: &t_api.SearchPromisesRequest{Id: "*", States: []promise.State{}, Tags: map[string]string{}, Limit: 5}}),
		enc(&t_api.Cursor[t_api.SearchPromisesRequest]{Next: &t_api.SearchPromisesRequest{Id: "*", States: []promise.State{promise.Pending}, Tags: nil, Limit: 5}}),
		enc(&t_api.Cursor[t_api.SearchPromisesRequest]{Next: &t_api.SearchPromisesRequest{Id: "", States: []promise.State{promise.Pending}, Tags: map[string]string{}, Limit: 5}}),
		enc(&t_api.Cursor[t_api.SearchSchedulesRequest]{Next: &t_api.SearchSchedulesRequest{Id: "*", Tags: map[string]string{}, Limit: 0}}),
		enc(&t_api.Cursor[t_api.SearchSchedulesRequest]{Next: &t_api.SearchSchedulesRequest{Id: "*", Tags: map[string]string{}, Limit: 101}}),
		enc(&t_api.Cursor[t_api.SearchSchedulesRequest]{Next: &t_api.SearchSchedulesRequest{Id: "*", Tags: nil, Limit: 5}}),
		enc(&t_api.Cursor[t_api.SearchSchedulesRequest]{Next: &t_api.SearchSchedulesRequest{Id: "", Tags: map[string]string{}, Limit: 5}}),
		enc(&t_api.Cursor[t_api.SearchSchedulesRequest]{Next: nil}),
		enc(&t_api.Cursor[t_api.SearchSchedulesRequest]{Next: &t_api.SearchSchedulesRequest{Id: "", Limit: 0}}),
		"", "x", "a.b.c", "eyJhbGciOiJub25lIn0.e30.", strings.Repeat("A", 70000),
	}
	path := g.pick([]string{"/promises", "/schedules"}, "which")
	for i := 0; i < 3; i++ {
		tok := g.pick(forged, "token")
		wellSigned := strings.Count(tok, ".") == 2 && len(tok) > 40 && len(tok) < 5000
		if rapid.IntRange(0, 5).Draw(g.t, "damage") == 0 && len(tok) > 10 {
			b := []byte(tok)
			b[len(b)-3] ^= 1
			tok, wellSigned = string(b), false
		}
		if i > 0 {
			path = g.pick([]string{"/promises", "/schedules"}, "which")
		}
		st := step{HTTPReq: HTTPReq{Method: "GET", Path: path + "?cursor=" + url.QueryEscape(tok)}, mutation: "cursor=" + truncate(tok, 40), noTrace: true}
		if !wellSigned && tok != "" {
			st.invalid = true // a cursor whose signature does not verify is rejected
		}
		sc.steps = append(sc.steps, st)
	}
	// odd query strings
	q := g.pick([]string{"?id=", "?id=*&limit=-1", "?id=*&limit=101", "?id=*&limit=abc", "?id=*&state=nope", "?id=%&state=pending", "?id=*&tags[]=x", "?id=*&tags[a.b]=c", "?id=*&tags[%5B]=c", "?id=*&tags['$']=c", "?id=*&limit=0", "?id=" + url.QueryEscape(strings.Repeat("*a", 3000)), "?limit=5"}, "query")
	sc.steps = append(sc.steps, step{HTTPReq: HTTPReq{Method: "GET", Path: path + q}, mutation: "query=" + truncate(q, 40), noTrace: true})
	// task links with odd path parameters
	sc.steps = append(sc.steps, step{HTTPReq: HTTPReq{Method: "GET", Path: "/tasks/" + g.pick([]string{"claim", "complete", "heartbeat"}, "taskop") + "/" + esc(g.hostile("taskid")) + "/" + g.pick([]string{"1", "0", "-1", "x", "99999999999999999999", ""}, "counter")}, mutation: "task-link"})
	return sc
}

// grpc: the gRPC endpoints with absent sub-messages, out-of-range numbers and hostile strings.
func (g *gen) grpc(pfx string) scenario {
	sc := scenario{name: "grpc", pfx: pfx}
	id := pfx + "p"
	h := g.hostile("gh")
	ttl := int32(g.pick1([]int64{-1, 0, 100, 1<<31 - 1}, "gttl"))
	counter := int32(g.pick1([]int64{-1, 0, 1, 1<<31 - 1}, "gcounter"))
	var recv *pb.Recv
	switch rapid.IntRange(0, 4).Draw(g.t, "grecv") {
	case 0:
		recv = nil
	case 1:
		recv = &pb.Recv{}
	case 2:
		recv = &pb.Recv{Recv: &pb.Recv_Logical{Logical: h}}
	case 3:
		recv = &pb.Recv{Recv: &pb.Recv_Physical{Physical: nil}}
	default:
		recv = &pb.Recv{Recv: &pb.Recv_Physical{Physical: &pb.PhysicalRecv{Type: g.pick([]string{"poll", "http", "", "x"}, "gptype"), Data: []byte(g.pick([]string{"", "null", "{}", "{", `{"group":"g"}`, `"x"`}, "gpdata"))}}}
	}
	add := func(name string, invalid bool, f func(c *GrpcClients, ctx context.Context) error) {
		sc.steps = append(sc.steps, step{HTTPReq: HTTPReq{Method: "GRPC", Path: name, Grpc: f}, invalid: invalid, mutation: fmt.Sprintf("%s h=%q ttl=%d counter=%d recv=%v", name, truncate(h, 30), ttl, counter, recv)})
	}
	add("CreatePromise", false, func(c *GrpcClients, ctx context.Context) error {
		_, err := c.Promises.CreatePromise(ctx, &pb.CreatePromiseRequest{Id: id, Timeout: ms(400), Tags: map[string]string{"resonate:invoke": h}})
		return err
	})
	switch rapid.IntRange(0, 7).Draw(g.t, "grpcop") {
	case 0:
		add("CreateCallback", recv == nil || recv.Recv == nil, func(c *GrpcClients, ctx context.Context) error {
			_, err := c.Callbacks.CreateCallback(ctx, &pb.CreateCallbackRequest{Id: "cb", PromiseId: id, RootPromiseId: pfx + "r", Timeout: ms(60000), Recv: recv})
			return err
		})
	case 1:
		add("CreateSubscription", recv == nil || recv.Recv == nil, func(c *GrpcClients, ctx context.Context) error {
			_, err := c.Subscriptions.CreateSubscription(ctx, &pb.CreateSubscriptionRequest{Id: h, PromiseId: id, Timeout: ms(60000), Recv: recv})
			return err
		})
	case 2:
		proc := g.pick([]string{"w", "", h}, "gproc")
		add("ClaimTask", ttl < 0 || proc == "", func(c *GrpcClients, ctx context.Context) error {
			_, err := c.Tasks.ClaimTask(ctx, &pb.ClaimTaskRequest{Id: "__invoke:" + id, Counter: counter, ProcessId: proc, Ttl: ttl})
			return err
		})
	case 3:
		add("CompleteTask", false, func(c *GrpcClients, ctx context.Context) error {
			_, err := c.Tasks.CompleteTask(ctx, &pb.CompleteTaskRequest{Id: h, Counter: counter})
			return err
		})
	case 4:
		var pr *pb.CreatePromiseRequest
		var tk *pb.CreatePromiseTaskRequest
		if rapid.Bool().Draw(g.t, "gpr") {
			pr = &pb.CreatePromiseRequest{Id: pfx + "pt", Timeout: ms(400), Tags: map[string]string{"resonate:invoke": g.pick([]string{"poll://g/w", h}, "gtag")}}
		}
		if rapid.Bool().Draw(g.t, "gtk") {
			tk = &pb.CreatePromiseTaskRequest{ProcessId: g.pick([]string{"w", ""}, "gtproc"), Ttl: ttl}
		}
		add("CreatePromiseAndTask", pr == nil || tk == nil || ttl < 0, func(c *GrpcClients, ctx context.Context) error {
			_, err := c.Promises.CreatePromiseAndTask(ctx, &pb.CreatePromiseAndTaskRequest{Promise: pr, Task: tk})
			return err
		})
	case 5:
		cron := g.pick(crons, "gcron")
		add("CreateSchedule", cron == "" || cron == "bad" || ((strings.HasPrefix(cron, "TZ=") || strings.HasPrefix(cron, "CRON_TZ=")) && !strings.Contains(cron, " ")), func(c *GrpcClients, ctx context.Context) error {
			_, err := c.Schedules.CreateSchedule(ctx, &pb.CreateScheduleRequest{Id: pfx + "sch", Cron: cron, PromiseId: g.pick([]string{pfx + "x.{{.timestamp}}", "{{", h}, "gtmpl"), PromiseTimeout: 300, PromiseTags: map[string]string{"resonate:invoke": h}})
			return err
		})
	case 6:
		add("SearchPromises", false, func(c *GrpcClients, ctx context.Context) error {
			_, err := c.Promises.SearchPromises(ctx, &pb.SearchPromisesRequest{Id: g.pick([]string{"*", "", h}, "gq"), State: pb.SearchState(g.pick1([]int64{0, 1, 2, 3, 99, -1}, "gstate")), Limit: int32(g.pick1([]int64{0, 1, 100, 101, -1}, "glimit")), Cursor: g.pick([]string{"", "x", h}, "gcursor"), Tags: map[string]string{h: h}})
			return err
		})
	default:
		add("AcquireLock", false, func(c *GrpcClients, ctx context.Context) error {
			_, err := c.Locks.AcquireLock(ctx, &pb.AcquireLockRequest{ResourceId: h, ExecutionId: g.pick([]string{"e", ""}, "gexec"), ProcessId: "w", Ttl: int64(g.pick1([]int64{-1, 0, 300, 1<<63 - 1}, "glttl"))})
			return err
		})
	}
	add("ResolvePromise", false, func(c *GrpcClients, ctx context.Context) error {
		_, err := c.Promises.ResolvePromise(ctx, &pb.ResolvePromiseRequest{Id: id})
		return err
	})
	return sc
}

func truncate(s string, n int) string {
	if len(s) > n {
		return s[:n] + "…"
	}
	return s
}

// ---------------------------------------------------------------------------
// execution

type outcome struct {
	died      bool
	wedged    bool
	dropped   []string // requests that got no answer
	wrong     []string // certainly-invalid requests not answered with a client error / traces left
	log       string
	requests  int
	reached   int // answered with anything but 400 (reached the kernel)
	nontriv   []string
	poisonRun bool
}

var serverFlags = []string{"--system-signal-timeout", "200ms", "--system-task-enqueue-delay", "400ms", "--aio-sender-plugin-http-timeout", "300ms"}

func prefixKeys(sn core.Snapshot, pfx string) map[string]bool {
	out := map[string]bool{}
	for tbl, rows := range sn {
		for k := range rows {
			if strings.Contains(k, pfx) {
				out[tbl+"/"+k] = true
			}
		}
	}
	return out
}

// runBatch executes the scenarios against a fresh server on a fresh database and applies the C13 protocol:
// requests, background cycles, health check, restart on the same file, background cycles, health check.
func runBatch(dir string, scs []scenario, checkAnswers bool) outcome {
	var out outcome
	_ = os.RemoveAll(dir)
	_ = os.MkdirAll(dir, 0o755)
	srv := NewServer(dir, serverFlags...)
	if err := srv.Start(); err != nil {
		out.died, out.log = true, "start: "+err.Error()
		return out
	}
	defer srv.Kill()
	clients := srv.Grpc()
	consecDropped := 0
	for _, sc := range scs {
		for _, st := range sc.steps {
			if !srv.Alive() {
				out.died, out.log = true, srv.LogTail(40)
				return out
			}
			if st.Method == "PAUSE" {
				n, _ := strconv.Atoi(st.Path)
				time.Sleep(time.Duration(n) * time.Millisecond)
				continue
			}
			st.HTTPReq.Body = fillClock(st.HTTPReq.Body)
			out.requests++
			droppedBefore := len(out.dropped)
			var before core.Snapshot
			if checkAnswers && st.noTrace {
				before, _ = srv.Snapshot()
			}
			desc := fmt.Sprintf("%s %s %s [%s]", st.Method, st.Path, truncate(st.Body, 200), st.mutation)
			clientErr := false
			if st.Method == "GRPC" {
				ctx, cancel := context.WithTimeout(context.Background(), 5*time.Second)
				err := st.Grpc(clients, ctx)
				cancel()
				code := status.Code(err)
				switch code {
				case codes.DeadlineExceeded, codes.Canceled:
					out.dropped = append(out.dropped, fmt.Sprintf("%s => %v", desc, err))
				case codes.InvalidArgument:
					clientErr = true
				}
				if st.invalid && checkAnswers && code != codes.InvalidArgument && srv.Alive() {
					out.wrong = append(out.wrong, fmt.Sprintf("%s is invalid but was answered %v", desc, code))
				}
				if code != codes.InvalidArgument {
					out.reached++
				}
			} else {
				res := srv.Do(st.HTTPReq)
				if res.Err != nil {
					out.dropped = append(out.dropped, fmt.Sprintf("%s => %v", desc, res.Err))
				} else {
					clientErr = res.Code == 400
					if res.Code != 400 {
						out.reached++
					}
					if st.invalid && checkAnswers && res.Code != 400 {
						out.wrong = append(out.wrong, fmt.Sprintf("%s is invalid but was answered %d %s", desc, res.Code, truncate(string(res.Body), 120)))
					}
					if res.Code >= 500 && checkAnswers && res.Code != 503 {
						out.wrong = append(out.wrong, fmt.Sprintf("%s was answered %d %s (a client input must not produce a server error)", desc, res.Code, truncate(string(res.Body), 160)))
					}
				}
			}
			if len(out.dropped) > droppedBefore {
				consecDropped++
			} else {
				consecDropped = 0
			}
			if consecDropped >= 3 && srv.Alive() {
				// the kernel answers nothing any more: the rest of the batch would only add one time-out per request
				out.wedged, out.log = true, "three consecutive requests were not answered, the last: "+out.dropped[len(out.dropped)-1]+"\n"+srv.LogTail(20)
				return out
			}
			if st.mutation != "" && !clientErr {
				out.nontriv = append(out.nontriv, st.Method+" "+strings.SplitN(st.Path, "?", 2)[0]+" "+st.mutation)
			}
			if before != nil && clientErr {
				if after, err := srv.Snapshot(); err == nil {
					b := prefixKeys(before, sc.pfx)
					for k := range prefixKeys(after, sc.pfx) {
						if !b[k] {
							out.wrong = append(out.wrong, fmt.Sprintf("%s was rejected as invalid but left row %s", desc, k))
						}
					}
				}
			}
		}
	}
	wait := func(d time.Duration) bool {
		deadline := time.Now().Add(d)
		for time.Now().Before(deadline) {
			if !srv.Alive() {
				return false
			}
			time.Sleep(50 * time.Millisecond)
		}
		return true
	}
	out.poisonRun = true
	if !wait(2600*time.Millisecond) || !srv.Alive() {
		out.died, out.log = true, srv.LogTail(40)
		return out
	}
	if err := srv.Health(3 * time.Second); err != nil {
		out.wedged, out.log = true, "health after background cycles: "+err.Error()+"\n"+srv.LogTail(20)
		return out
	}
	if err := dispatchProbe(srv, "probe1"); err != nil {
		out.wedged, out.log = true, "background dispatch after the batch: "+err.Error()+"\n"+srv.LogTail(20)
		return out
	}
	// poison pills survive restarts
	srv.Kill()
	if err := srv.Start(); err != nil {
		out.died, out.log = true, "restart on the same database: "+err.Error()
		return out
	}
	if !wait(1500 * time.Millisecond) {
		out.died, out.log = true, "after restart: "+srv.LogTail(40)
		return out
	}
	if err := srv.Health(3 * time.Second); err != nil {
		out.wedged, out.log = true, "health after restart: "+err.Error()+"\n"+srv.LogTail(20)
		return out
	}
	if err := dispatchProbe(srv, "probe2"); err != nil {
		out.wedged, out.log = true, "background dispatch after restart: "+err.Error()+"\n"+srv.LogTail(20)
	}
	return out
}

// dispatchProbe checks that the background workers still do their job: a fresh routed promise must be handed
// to a poll listener (stalled background coroutines do not show in a read request).
func dispatchProbe(srv *Server, name string) error {
	id := fmt.Sprintf("verif-%s-%d", name, time.Now().UnixNano())
	l := listen(srv.Poll, "verifprobe", id)
	defer l.close()
	res := srv.PostJSON("/promises", map[string]any{"id": id, "timeout": time.Now().UnixMilli() + 60000, "tags": map[string]string{"resonate:invoke": "poll://verifprobe/" + id}}, nil)
	if res.Code != 201 {
		return fmt.Errorf("probe promise not created: %d %v", res.Code, res.Err)
	}
	if _, ok := l.wait(func(b string) bool { return strings.Contains(b, id) }, 5*time.Second); !ok {
		return fmt.Errorf("a routed promise created after the batch was not dispatched to its poll listener within 5s: task dispatch is stalled")
	}
	return nil
}

func (o outcome) bad() bool { return o.died || o.wedged }

// minimize finds a small list of scenarios (then requests) that still kills or wedges the server.
func minimize(dir string, scs []scenario) []scenario {
	// bounded: a wedge costs every probing run its full waiting time; the violation is reported with the smallest
	// list found within the budget rather than lost to the test deadline
	budget := 100 * time.Second
	if core.Tier() == "thorough" {
		budget = 8 * time.Minute
	}
	stop := time.Now().Add(budget)
	fails := func(x []scenario) bool {
		return len(x) > 0 && time.Now().Before(stop) && runBatch(dir, x, false).bad()
	}
	cur := scs
	for len(cur) > 1 {
		mid := len(cur) / 2
		switch {
		case fails(cur[:mid]):
			cur = cur[:mid]
		case fails(cur[mid:]):
			cur = cur[mid:]
		default:
			// interaction between the halves: drop single scenarios greedily
			changed := false
			for i := 0; i < len(cur) && len(cur) <= 8; i++ {
				x := append(append([]scenario{}, cur[:i]...), cur[i+1:]...)
				if fails(x) {
					cur, changed = x, true
					i--
				}
			}
			if !changed {
				return cur
			}
		}
	}
	// minimise the requests of the remaining scenario
	if len(cur) == 1 {
		sc := cur[0]
		for i := 0; i < len(sc.steps) && len(sc.steps) > 1; i++ {
			x := sc
			x.steps = append(append([]step{}, sc.steps[:i]...), sc.steps[i+1:]...)
			if fails([]scenario{x}) {
				sc = x
				i--
			}
		}
		cur = []scenario{sc}
	}
	return cur
}

func describeScenarios(scs []scenario) []map[string]any {
	var out []map[string]any
	for _, sc := range scs {
		var reqs []string
		for _, st := range sc.steps {
			reqs = append(reqs, fmt.Sprintf("%s %s %s  # %s", st.Method, st.Path, truncate(st.Body, 600), st.mutation))
		}
		out = append(out, map[string]any{"scenario": sc.name, "requests": reqs})
	}
	return out
}

// TestC13 — no client input can crash or wedge the server or poison stored state.
func TestC13(t *testing.T) {
	stats := core.NewStats("C13", "a real `resonate serve` process built from the tree (sqlite file in scratch, free ports, background cycle shortened by flags). rapid draws batches of scenarios from a grammar of valid request skeletons for every endpoint of both protocols x one mutation (field absent, empty, null, negative, 0, +-2^31, +-2^63, 1e100, wrong JSON type, 64 KiB, or a value from a dictionary of hostile strings: JSON literals, template syntax, separators, receivers of every shape, URLs, cron oddities, forged and damaged cursors), plus stateful scenarios that store hostile data and trigger its later processing (routing at creation, time-out, conversion of registrations and dispatch through the real sender/poll/http plugins, schedule firing). Protocol per batch: send, wait > 10 background cycles, health check, kill, restart on the same file, wait, health check; on death or wedge the batch is bisected on fresh servers to a minimal request list (the replay file). Oracle: process alive and answering, every request answered, certainly-invalid requests answered 400/InvalidArgument and leave no row, no 5xx for client input. An evaluation = one request sent. Non-trivial: a mutated request that was not rejected by validation (reached the kernel or was stored) in a batch followed by background cycles and a restart.")
	defer stats.Write()
	dir := core.Scratch("verif-c13-")
	defer os.RemoveAll(dir)
	known := core.KnownKeys()
	_ = known
	batch := 0
	rapid.Check(t, func(rt *rapid.T) {
		batch++
		g := &gen{t: rt}
		n := rapid.IntRange(40, 90).Draw(rt, "scenarios") // requests are cheap, the batch's cost is its waits and its restart
		var scs []scenario
		for i := 0; i < n; i++ {
			scs = append(scs, g.next())
		}
		out := runBatch(fmt.Sprintf("%s/b%d", dir, batch), scs, true)
		for i := 0; i < out.requests; i++ {
			stats.Eval()
		}
		for _, sc := range scs {
			stats.Class("scenario:" + sc.name)
			for _, l := range sc.labels {
				stats.Class(l)
			}
		}
		if (out.wedged || len(out.dropped) > 0) && !out.died {
			// a health check, a dispatch probe or a request that ran into its wall-clock limit is only evidence if it does
			// so again: the same batch is run once more on a fresh server. What a request stored reproduces; a machine that
			// stood still for a few seconds does not (a process that died needs no confirmation).
			again := runBatch(fmt.Sprintf("%s/confirm%d", dir, batch), scs, true)
			if !again.bad() && len(again.dropped) == 0 {
				stats.Class("time-limit-hit-not-confirmed-by-a-second-run")
				out.wedged, out.dropped, out.log = false, nil, ""
			} else if again.died {
				out = again
			}
		}
		if out.bad() {
			min := minimize(fmt.Sprintf("%s/min%d", dir, batch), scs)
			final := runBatch(fmt.Sprintf("%s/min%d", dir, batch), min, false)
			what := "terminated the server process"
			if !out.died {
				what = "wedged the kernel loop"
			}
			rec := map[string]any{"violation": "client input " + what, "minimal_requests": describeScenarios(min), "server_log": strings.Split(final.log, "\n"), "first_log": strings.Split(out.log, "\n")}
			core.SaveFailure("last", rec)
			b, _ := json.MarshalIndent(describeScenarios(min), "", " ")
			rt.Fatalf("VIOLATION C13 client input %s; minimal request list:\n%s\nserver log:\n%s", what, b, truncate(final.log+"\n"+out.log, 3000))
		}
		if len(out.dropped) > 0 {
			core.SaveFailure("last", map[string]any{"violation": "request not answered", "requests": out.dropped})
			rt.Fatalf("VIOLATION C13 %d request(s) got no reply, e.g. %s", len(out.dropped), out.dropped[0])
		}
		if len(out.wrong) > 0 {
			core.SaveFailure("last", map[string]any{"violation": "invalid request not rejected cleanly", "requests": out.wrong})
			rt.Fatalf("VIOLATION C13 %s", out.wrong[0])
		}
		for _, sig := range out.nontriv {
			stats.Nontriv(sig, sig)
		}
		stats.ClassN("requests-reaching-the-kernel", out.reached)
	})
	if !t.Failed() {
		overload(t, stats, dir)
	}
}

// overload: ordinary requests that the kernel has to turn away (api queue of 1, coroutine pool of 1, or a request
// that meets the shutdown) are requests a client can send: each must be answered (503 / Unavailable or its normal
// answer), over both protocols, and the process must survive them.
func overload(t *testing.T, stats *core.Stats, dir string) {
	for round, flags := range [][]string{{"--api-size", "1"}, {"--system-coroutine-max-size", "1"}} {
		sdir := fmt.Sprintf("%s/overload%d", dir, round)
		_ = os.MkdirAll(sdir, 0o755)
		srv := NewServer(sdir, append(append([]string{}, serverFlags...), flags...)...)
		if err := srv.Start(); err != nil {
			t.Fatalf("INCONCLUSIVE start for the overload round: %v", err)
		}
		g := srv.Grpc()
		var wg sync.WaitGroup
		var mu sync.Mutex
		dropped := []string{}
		for i := 0; i < 120; i++ {
			wg.Add(1)
			go func(i int) {
				defer wg.Done()
				if i%3 == 0 {
					res := srv.Do(HTTPReq{Method: "GET", Path: fmt.Sprintf("/promises/ov%d", i)})
					if res.Err != nil {
						mu.Lock()
						dropped = append(dropped, fmt.Sprintf("HTTP GET /promises/ov%d: %v", i, res.Err))
						mu.Unlock()
					}
					return
				}
				ctx, cancel := context.WithTimeout(context.Background(), 8*time.Second)
				defer cancel()
				_, _ = g.Promises.ReadPromise(ctx, &pb.ReadPromiseRequest{Id: fmt.Sprintf("ov%d", i)})
			}(i)
		}
		wg.Wait()
		stats.Class("overload-round:" + strings.Join(flags, "="))
		for i := 0; i < 120; i++ {
			stats.Eval()
		}
		time.Sleep(300 * time.Millisecond)
		alive := srv.Alive()
		logTail := srv.LogTail(25)
		srv.Kill()
		if !alive {
			core.SaveFailure("last", map[string]any{"violation": "a burst of ordinary requests terminated the server", "flags": flags, "server_log": strings.Split(logTail, "\n")})
			t.Fatalf("VIOLATION C13 a burst of 120 ordinary read requests (HTTP and gRPC) against a server started with %v terminated the server process:\n%s", flags, truncate(logTail, 2500))
		}
		if len(dropped) > 0 {
			core.SaveFailure("last", map[string]any{"violation": "requests got no reply under overload", "flags": flags, "requests": dropped})
			t.Fatalf("VIOLATION C13 %d request(s) turned away by a server started with %v got no reply at all, e.g. %s", len(dropped), flags, dropped[0])
		}
	}
}
