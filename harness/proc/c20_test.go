package proc

import (
	"bufio"
	"context"
	"encoding/json"
	"fmt"
	"net/http"
	"net/url"
	"os"
	"reflect"
	"strings"
	"sync"
	"testing"
	"time"
	"unicode/utf8"

	"github.com/resonatehq/resonate/internal/app/subsystems/api/grpc/pb"
	"github.com/resonatehq/resonate/internal/verif/core"
	"pgregory.net/rapid"
)

// ---- generators: Unicode-heavy, valid UTF-8 only (JSON and proto3 cannot carry anything else) ----

var idAtoms = []string{"a", "B", "z9", "/", "//", ":", "%", "%2F", "%zz", "?", "#", "+", "&", "=", "<", ">", "'", `"`, "\\", " ", "  ", ".", "..", "~", "*", "_", "é", "é", "ß", "ı", "İ", "日本語", "😀", "ﬁ", "​", "‮", "{{", "}}", "{{.id}}", "$", "@", ";", ",", "|", "^", "`", "\t", "null", "__invoke:"}

func genId(t *rapid.T, label string) string {
	n := rapid.IntRange(1, 6).Draw(t, label+".n")
	var sb strings.Builder
	for i := 0; i < n; i++ {
		if rapid.IntRange(0, 7).Draw(t, label+".free") == 0 {
			sb.WriteString(rapid.StringN(1, 4, 16).Draw(t, label+".str"))
		} else {
			sb.WriteString(rapid.SampledFrom(idAtoms).Draw(t, label+".atom"))
		}
	}
	s := sb.String()
	if !utf8.ValidString(s) {
		s = strings.ToValidUTF8(s, "?")
	}
	// the HTTP router cannot carry NUL in a path and trims nothing else; NUL is exercised through gRPC only
	return s
}

func genBytes(t *rapid.T, label string) []byte {
	switch rapid.IntRange(0, 5).Draw(t, label+".shape") {
	case 0:
		return nil
	case 1:
		all := make([]byte, 256)
		for i := range all {
			all[i] = byte(i)
		}
		return all
	case 2:
		return rapid.SliceOfN(rapid.Byte(), 1024, 4096).Draw(t, label+".big")
	case 3:
		return []byte(`{"json":"value","n":null}`)
	default:
		return rapid.SliceOfN(rapid.Byte(), 0, 40).Draw(t, label+".bytes")
	}
}

func genMapU(t *rapid.T, label string) map[string]string {
	n := rapid.IntRange(0, 3).Draw(t, label+".n")
	if n == 0 {
		return nil
	}
	m := map[string]string{}
	for i := 0; i < n; i++ {
		m[genId(t, label+".k")] = genId(t, label+".v")
	}
	return m
}

func eqMap(a, b map[string]string) bool {
	if len(a) == 0 && len(b) == 0 {
		return true
	}
	return reflect.DeepEqual(a, b)
}

func pathId(id string) string { return strings.ReplaceAll(url.PathEscape(id), "%2F", "/") }

type wire struct {
	Id      string            `json:"id"`
	State   string            `json:"state"`
	Timeout int64             `json:"timeout"`
	Tags    map[string]string `json:"tags"`
	Param   struct {
		Headers map[string]string `json:"headers"`
		Data    []byte            `json:"data"`
	} `json:"param"`
	Value struct {
		Headers map[string]string `json:"headers"`
		Data    []byte            `json:"data"`
	} `json:"value"`
	IdempotencyKeyForCreate   string `json:"idempotencyKeyForCreate"`
	IdempotencyKeyForComplete string `json:"idempotencyKeyForComplete"`
}

type datum struct {
	id         string
	ikey       string
	headers    map[string]string
	data       []byte
	tags       map[string]string
	timeout    int64
	viaGrpc    bool
	vheaders   map[string]string
	vdata      []byte
	vkey       string
	completed  bool
	nulInId    bool
	httpUnsafe bool
}

func httpHeaderSafe(s string) bool {
	if s != strings.TrimSpace(s) {
		return false
	}
	for _, r := range s {
		if r < 0x20 || r == 0x7f {
			return false
		}
	}
	return true
}

// listener is a real poll (SSE) client.
type listener struct {
	mu     sync.Mutex
	bodies []string
	cancel context.CancelFunc
	done   chan struct{}
}

func listen(addr, group, id string) *listener {
	ctx, cancel := context.WithCancel(context.Background())
	l := &listener{cancel: cancel, done: make(chan struct{})}
	ready := make(chan struct{})
	go func() {
		defer close(l.done)
		req, _ := http.NewRequestWithContext(ctx, "GET", "http://"+addr+"/"+url.PathEscape(group)+"/"+pathId(id), nil)
		resp, err := http.DefaultClient.Do(req)
		close(ready)
		if err != nil {
			return
		}
		defer resp.Body.Close()
		sc := bufio.NewScanner(resp.Body)
		sc.Buffer(make([]byte, 1<<20), 16<<20)
		for sc.Scan() {
			if line := sc.Text(); strings.HasPrefix(line, "data: ") {
				l.mu.Lock()
				l.bodies = append(l.bodies, strings.TrimPrefix(line, "data: "))
				l.mu.Unlock()
			}
		}
	}()
	<-ready
	time.Sleep(50 * time.Millisecond)
	return l
}

func (l *listener) wait(pred func(string) bool, d time.Duration) (string, bool) {
	deadline := time.Now().Add(d)
	for time.Now().Before(deadline) {
		l.mu.Lock()
		for _, b := range l.bodies {
			if pred(b) {
				l.mu.Unlock()
				return b, true
			}
		}
		l.mu.Unlock()
		time.Sleep(40 * time.Millisecond)
	}
	return "", false
}

func (l *listener) close() { l.cancel(); <-l.done }

// TestC20 — client data is stored and returned exactly as supplied.
func TestC20(t *testing.T) {
	stats := core.NewStats("C20", "a real `resonate serve` process; rapid draws ids/keys/header and tag maps from a Unicode-heavy generator (slashes, ':', '%', '?', '#', '+', '&', '<', quotes, spaces, dots, combining marks, astral code points, bidi and zero-width characters, template and JSON syntax), data bytes of every value up to 4 KiB, time-outs over the whole int64 range. Every datum is WRITTEN through one protocol (HTTP or gRPC) and READ through both: read, search, claim payload, invoke/notify bodies received by a real poll (SSE) listener, schedule read and the promises a schedule creates; then the server is restarted and everything read again. Oracle: byte/element equality with what was sent (absent == empty); ids differing only in case, whitespace, trailing slash, Unicode normalisation form or percent-encoding are different promises; derived ids (task ids, scheduled promise ids) contain the client id verbatim. Non-trivial: the datum contains a non-alphanumeric or non-ASCII character or exceeds 1 KiB. Distinct = the datum.")
	defer stats.Write()
	dir := core.Scratch("verif-c20-")
	defer os.RemoveAll(dir)
	srv := NewServer(dir, "--system-signal-timeout", "150ms", "--system-task-enqueue-delay", "300ms")
	if err := srv.Start(); err != nil {
		t.Fatalf("INCONCLUSIVE server start: %v", err)
	}
	defer srv.Kill()
	var stored []*datum
	n := 0
	known := core.KnownKeys()
	check := func(fail func(string, ...any), d *datum, phase string) {
		g := srv.Grpc()
		// ---- read through HTTP ----
		if !d.nulInId {
			res := srv.Do(HTTPReq{Method: "GET", Path: "/promises/" + pathId(d.id)})
			if res.Err != nil || res.Code != 200 {
				fail("%s: HTTP read of promise %q (written via grpc=%v) answered %d %v %s", phase, d.id, d.viaGrpc, res.Code, res.Err, truncate(string(res.Body), 200))
				return
			}
			var w wire
			if err := json.Unmarshal(res.Body, &w); err != nil {
				fail("%s: HTTP read of %q: %v", phase, d.id, err)
				return
			}
			if w.Id != d.id || w.Timeout != d.timeout || !eqMap(w.Tags, d.tags) || !eqMap(w.Param.Headers, d.headers) || string(w.Param.Data) != string(d.data) || w.IdempotencyKeyForCreate != d.ikey {
				fail("%s: HTTP read returned %+v for datum id=%q timeout=%d tags=%q headers=%q data=%q key=%q (written via grpc=%v)", phase, w, d.id, d.timeout, d.tags, d.headers, d.data, d.ikey, d.viaGrpc)
			}
			if d.completed && w.State == "RESOLVED" && (string(w.Value.Data) != string(d.vdata) || !eqMap(w.Value.Headers, d.vheaders) || w.IdempotencyKeyForComplete != d.vkey) {
				fail("%s: HTTP read returned value %+v for completion data=%q headers=%q key=%q", phase, w.Value, d.vdata, d.vheaders, d.vkey)
			}
		}
		// ---- read through gRPC ----
		ctx, cancel := context.WithTimeout(context.Background(), 30*time.Second)
		defer cancel()
		r, err := g.Promises.ReadPromise(ctx, &pb.ReadPromiseRequest{Id: d.id})
		if err != nil {
			fail("%s: gRPC read of promise %q (written via grpc=%v): %v", phase, d.id, d.viaGrpc, err)
			return
		}
		p := r.Promise
		if p.Id != d.id || p.Timeout != d.timeout || !eqMap(p.Tags, d.tags) || !eqMap(p.Param.GetHeaders(), d.headers) || string(p.Param.GetData()) != string(d.data) || p.IdempotencyKeyForCreate != d.ikey {
			fail("%s: gRPC read returned %v for datum id=%q timeout=%d tags=%q headers=%q data=%q key=%q (written via grpc=%v)", phase, p, d.id, d.timeout, d.tags, d.headers, d.data, d.ikey, d.viaGrpc)
		}
		if d.completed && p.State == pb.State_RESOLVED && (string(p.Value.GetData()) != string(d.vdata) || !eqMap(p.Value.GetHeaders(), d.vheaders) || p.IdempotencyKeyForComplete != d.vkey) {
			fail("%s: gRPC read returned value %v for completion data=%q headers=%q key=%q", phase, p.Value, d.vdata, d.vheaders, d.vkey)
		}
	}
	rapid.Check(t, func(rt *rapid.T) {
		n++
		stats.Eval()
		failed := false
		fail := func(f string, a ...any) {
			msg := fmt.Sprintf(f, a...)
			key := ""
			if strings.Contains(msg, "scheduled promise id") {
				key = "C20:html-escaped-schedule-id"
			}
			if key != "" && known[key] {
				stats.KnownFinding(key)
				fmt.Printf("KNOWN-FINDING: property=C20 %s — %s\n", key, truncate(msg, 300))
				return
			}
			failed = true
			core.SaveFailure("last", map[string]any{"violation": msg})
			rt.Fatalf("VIOLATION C20 %s", msg)
		}
		if !srv.Alive() {
			rt.Fatalf("VIOLATION C20 the server died: %s", srv.LogTail(30))
		}
		pfx := fmt.Sprintf("c%d~", n)
		// the case marker goes in front of the generated id or behind it, so that ids may also BEGIN with a
		// separator, a space, a percent sign ...
		mk := func(body string) string { return pfx + body }
		if rapid.Bool().Draw(rt, "markerBehind") {
			mk = func(body string) string { return body + "~" + pfx }
		}
		kind := rapid.IntRange(0, 9).Draw(rt, "case")
		g := srv.Grpc()
		ctx, cancel := context.WithTimeout(context.Background(), 120*time.Second) // a limit for a wedged server, far from any answer time: a stalled machine must not read as a violation
		defer cancel()
		switch {
		case kind <= 4: // ---- A: promise round trip ----
			d := &datum{id: mk(genId(rt, "id")), headers: genMapU(rt, "headers"), data: genBytes(rt, "data"), tags: genMapU(rt, "tags"), viaGrpc: rapid.Bool().Draw(rt, "viaGrpc")}
			delete(d.tags, "resonate:invoke")
			d.timeout = rapid.SampledFrom([]int64{1<<63 - 1, 1 << 62, time.Now().UnixMilli() + 3600_000, 0, -1, -(1 << 63), 1, time.Now().UnixMilli() + 1}).Draw(rt, "timeout")
			d.ikey = rapid.SampledFrom([]string{"", "k", "key with spaces", "ké😀", "%2F/\\"}).Draw(rt, "ikey")
			if rapid.IntRange(0, 9).Draw(rt, "nul") == 0 {
				d.id += "\x00x"
				d.nulInId, d.viaGrpc = true, true
			}
			if d.viaGrpc {
				_, err := g.Promises.CreatePromise(ctx, &pb.CreatePromiseRequest{Id: d.id, IdempotencyKey: d.ikey, Param: &pb.Value{Headers: d.headers, Data: d.data}, Timeout: d.timeout, Tags: d.tags})
				if err != nil {
					fail("gRPC create of %q: %v", d.id, err)
				}
			} else {
				hdr := map[string]string{}
				if d.ikey != "" {
					hdr["idempotency-key"] = d.ikey
				}
				res := srv.PostJSON("/promises", map[string]any{"id": d.id, "timeout": d.timeout, "param": map[string]any{"headers": d.headers, "data": d.data}, "tags": d.tags}, hdr)
				if res.Err != nil || res.Code != 201 {
					fail("HTTP create of %q answered %d %v %s", d.id, res.Code, res.Err, truncate(string(res.Body), 200))
				}
			}
			check(fail, d, "after create")
			// search: the id as pattern when it contains no wildcard characters, always together with the prefix pattern
			if !strings.ContainsAny(d.id, "*%_\\") && !d.nulInId {
				q := url.Values{}
				q.Set("id", d.id)
				q.Set("limit", "100")
				res := srv.Do(HTTPReq{Method: "GET", Path: "/promises?" + q.Encode()})
				var sr struct {
					Promises []wire `json:"promises"`
				}
				_ = json.Unmarshal(res.Body, &sr)
				// the statement exempts search PATTERNS from exact comparison (LIKE is case-insensitive for ASCII and stops
				// at a NUL), so further matches are allowed; the promise itself must be among the results, exactly as supplied
				var hit *wire
				for i := range sr.Promises {
					if sr.Promises[i].Id == d.id {
						hit = &sr.Promises[i]
					}
				}
				if res.Code != 200 || hit == nil || string(hit.Param.Data) != string(d.data) || !eqMap(hit.Tags, d.tags) {
					fail("HTTP search for id %q answered %d with %d promises, the promise itself exactly as supplied is not among them: %s", d.id, res.Code, len(sr.Promises), truncate(string(res.Body), 300))
				}
				if len(sr.Promises) > 1 {
					stats.Class("search-pattern-matched-further-ids")
				}
				gs, err := g.Promises.SearchPromises(ctx, &pb.SearchPromisesRequest{Id: d.id, Limit: 100})
				var ghit *pb.Promise
				for _, p := range gs.GetPromises() {
					if p.Id == d.id {
						ghit = p
					}
				}
				if err != nil || ghit == nil || string(ghit.Param.GetData()) != string(d.data) {
					fail("gRPC search for id %q: the promise itself exactly as supplied is not among the %d results: %v %v", d.id, len(gs.GetPromises()), gs, err)
				}
			}
			// complete (through the other protocol) and read again
			if d.timeout > time.Now().UnixMilli()+1000 {
				d.vdata, d.vheaders, d.vkey = genBytes(rt, "vdata"), genMapU(rt, "vheaders"), rapid.SampledFrom([]string{"", "vk", "v k é"}).Draw(rt, "vkey")
				if d.viaGrpc && !d.nulInId {
					hdr := map[string]string{}
					if d.vkey != "" {
						hdr["idempotency-key"] = d.vkey
					}
					b, _ := json.Marshal(map[string]any{"state": "RESOLVED", "value": map[string]any{"headers": d.vheaders, "data": d.vdata}})
					res := srv.Do(HTTPReq{Method: "PATCH", Path: "/promises/" + pathId(d.id), Body: string(b), Headers: hdr})
					if res.Code != 201 {
						fail("HTTP complete of %q answered %d %s", d.id, res.Code, truncate(string(res.Body), 200))
					}
				} else {
					if _, err := g.Promises.ResolvePromise(ctx, &pb.ResolvePromiseRequest{Id: d.id, IdempotencyKey: d.vkey, Value: &pb.Value{Headers: d.vheaders, Data: d.vdata}}); err != nil {
						fail("gRPC complete of %q: %v", d.id, err)
					}
				}
				d.completed = true
				check(fail, d, "after complete")
			}
			if len(stored) < 250 && !failed {
				stored = append(stored, d)
			}
			if strings.IndexFunc(strings.ReplaceAll(d.id, pfx, ""), func(r rune) bool {
				return r > 127 || !(r >= 'a' && r <= 'z' || r >= 'A' && r <= 'Z' || r >= '0' && r <= '9')
			}) >= 0 || len(d.data) > 1024 {
				stats.Nontriv(d.id+string(d.data), map[string]any{"id": d.id, "data_bytes": len(d.data), "tags": d.tags, "headers": d.headers, "timeout": d.timeout, "written_via": map[bool]string{true: "grpc", false: "http"}[d.viaGrpc]})
			}
			stats.Class("promise-roundtrip")
		case kind == 5: // ---- E: ids are compared exactly ----
			base := mk(genId(rt, "id"))
			variant := rapid.SampledFrom([]func(string) string{strings.ToUpper, strings.ToLower, func(s string) string { return s + " " }, func(s string) string { return s + "/" }, func(s string) string { return " " + s },
				func(s string) string { return strings.ReplaceAll(s, "é", "é") }, func(s string) string { return strings.ReplaceAll(s, "/", "%2F") }, func(s string) string { return s + "​" }, func(s string) string { return strings.ReplaceAll(s, "~", "%7E") }}).Draw(rt, "variant")
			other := variant(base)
			if other == base {
				other = base + "."
			}
			for i, id := range []string{base, other} {
				res := srv.PostJSON("/promises", map[string]any{"id": id, "timeout": time.Now().UnixMilli() + 3600_000, "param": map[string]any{"data": []byte{byte(i + 1)}}}, nil)
				if res.Code != 201 {
					fail("creating %q (variant of %q) answered %d: ids that differ only in case/whitespace/slash/normalisation/escaping are different promises", id, base, res.Code)
				}
			}
			for i, id := range []string{base, other} {
				r, err := g.Promises.ReadPromise(ctx, &pb.ReadPromiseRequest{Id: id})
				if err != nil || r.Promise.Id != id || string(r.Promise.Param.GetData()) != string([]byte{byte(i + 1)}) {
					fail("reading %q returned %v %v (sibling id %q)", id, r, err, base)
				}
				res := srv.Do(HTTPReq{Method: "GET", Path: "/promises/" + pathId(id)})
				var w wire
				_ = json.Unmarshal(res.Body, &w)
				if res.Code != 200 || w.Id != id || string(w.Param.Data) != string([]byte{byte(i + 1)}) {
					fail("HTTP read of %q answered %d id=%q data=%v (sibling id %q)", id, res.Code, w.Id, w.Param.Data, base)
				}
			}
			stats.Class("id-distinctness")
			stats.Nontriv(base+"|"+other, map[string]any{"id": base, "variant": other})
		case kind <= 7: // ---- B/C: dispatched messages ----
			id := mk(genId(rt, "id"))
			lid := "w" + fmt.Sprint(n)
			l := listen(srv.Poll, "g", lid)
			defer l.close()
			data := genBytes(rt, "data")
			tags := map[string]string{"resonate:invoke": "poll://g/" + lid, "x": genId(rt, "tagv")}
			if _, err := g.Promises.CreatePromise(ctx, &pb.CreatePromiseRequest{Id: id, Param: &pb.Value{Data: data}, Timeout: time.Now().UnixMilli() + 3600_000, Tags: tags}); err != nil {
				fail("create routed promise %q: %v", id, err)
			}
			body, ok := l.wait(func(b string) bool { return strings.Contains(b, `"invoke"`) }, 25*time.Second)
			if !ok {
				fail("no invoke message arrived at the poll listener for promise %q within 25s", id)
			}
			var im struct {
				Type string `json:"type"`
				Task struct {
					Id      string `json:"id"`
					Counter int    `json:"counter"`
				} `json:"task"`
				Href map[string]string `json:"href"`
			}
			if err := json.Unmarshal([]byte(body), &im); err != nil || !strings.Contains(im.Task.Id, id) {
				fail("invoke message for promise %q does not embed the id unaltered: %s (%v)", id, body, err)
			}
			// claim with the values of the message: payload carries the promise exactly
			cl, err := g.Tasks.ClaimTask(ctx, &pb.ClaimTaskRequest{Id: im.Task.Id, Counter: int32(im.Task.Counter), ProcessId: "proc " + id, Ttl: 60000})
			if err != nil || !cl.Claimed || cl.Mesg == nil || cl.Mesg.Promises["root"] == nil || cl.Mesg.Promises["root"].Data == nil {
				fail("claim of dispatched task %q/%d: %v %v", im.Task.Id, im.Task.Counter, cl, err)
			} else if rp := cl.Mesg.Promises["root"]; rp.Id != id || rp.Data.Id != id || string(rp.Data.Param.GetData()) != string(data) || !eqMap(rp.Data.Tags, tags) {
				fail("claim payload for %q: %v", id, rp)
			}
			// notification
			sid := genId(rt, "subid")
			recv := map[string]any{"type": "poll", "data": map[string]any{"group": "g", "id": lid}}
			res := srv.PostJSON("/subscriptions", map[string]any{"Id": sid, "promiseId": id, "timeout": time.Now().UnixMilli() + 3600_000, "recv": recv}, nil)
			if res.Code != 201 {
				fail("subscription %q on %q answered %d %s", sid, id, res.Code, truncate(string(res.Body), 200))
			}
			vdata := genBytes(rt, "vdata")
			if _, err := g.Promises.ResolvePromise(ctx, &pb.ResolvePromiseRequest{Id: id, Value: &pb.Value{Data: vdata, Headers: map[string]string{"h": sid}}}); err != nil {
				fail("resolve %q: %v", id, err)
			}
			nb, ok := l.wait(func(b string) bool { return strings.Contains(b, `"notify"`) }, 25*time.Second)
			if !ok {
				fail("no notification arrived at the poll listener for promise %q (subscription %q) within 25s", id, sid)
			}
			var nm struct {
				Promise wire `json:"promise"`
			}
			if err := json.Unmarshal([]byte(nb), &nm); err != nil || nm.Promise.Id != id || string(nm.Promise.Value.Data) != string(vdata) || string(nm.Promise.Param.Data) != string(data) || !eqMap(nm.Promise.Tags, tags) || nm.Promise.Value.Headers["h"] != sid {
				fail("notification for %q does not carry the promise exactly: %s (%v)", id, truncate(nb, 400), err)
			}
			stats.Class("dispatched-messages")
			stats.Nontriv(id+sid, map[string]any{"id": id, "subscription": sid, "invoke_body": truncate(body, 200)})
			// ---- several messages of one dispatch cycle: every listener receives the message of ITS promise, then the
			// notification of ITS promise with its value (what is in flight together must not be mixed up) ----
			type burstMsg struct {
				id, lid     string
				data, vdata []byte
				l           *listener
			}
			var bs []*burstMsg
			for i, k := 0, rapid.IntRange(2, 6).Draw(rt, "burst"); i < k; i++ {
				b := &burstMsg{id: mk(genId(rt, "bid")) + fmt.Sprint(i), lid: fmt.Sprintf("w%d-%d", n, i), data: genBytes(rt, "bdata"), vdata: genBytes(rt, "bvdata")}
				b.l = listen(srv.Poll, "g", b.lid)
				defer b.l.close()
				bs = append(bs, b)
			}
			bctx, bcancel := context.WithTimeout(context.Background(), 90*time.Second)
			defer bcancel()
			each := func(f func(b *burstMsg) error) {
				var wg sync.WaitGroup
				errs := make([]error, len(bs))
				for i := range bs {
					wg.Add(1)
					go func(i int) { defer wg.Done(); errs[i] = f(bs[i]) }(i)
				}
				wg.Wait()
				for i, err := range errs {
					if err != nil {
						fail("burst: request for promise %q: %v", bs[i].id, err)
					}
				}
			}
			each(func(b *burstMsg) error {
				_, err := g.Promises.CreatePromise(bctx, &pb.CreatePromiseRequest{Id: b.id, Param: &pb.Value{Data: b.data}, Timeout: time.Now().UnixMilli() + 3600_000, Tags: map[string]string{"resonate:invoke": "poll://g/" + b.lid}})
				return err
			})
			for _, b := range bs {
				mb, ok := b.l.wait(func(x string) bool { return strings.Contains(x, `"invoke"`) }, 25*time.Second)
				if !ok {
					fail("burst: no invoke message arrived at listener %s for promise %q within 25s", b.lid, b.id)
				}
				var m struct {
					Task struct {
						Id string `json:"id"`
					} `json:"task"`
					Href map[string]string `json:"href"`
				}
				if err := json.Unmarshal([]byte(mb), &m); err != nil || m.Task.Id != "__invoke:"+b.id || !strings.Contains(m.Href["claim"], url.PathEscape("__invoke:"+b.id)) && !strings.Contains(m.Href["claim"], "__invoke:"+b.id) {
					fail("burst of %d invocations dispatched together: listener %s of promise %q received %s (%v): the message must name the task __invoke:<that id> and its links", len(bs), b.lid, b.id, truncate(mb, 400), err)
				}
			}
			each(func(b *burstMsg) error {
				res := srv.PostJSON("/subscriptions", map[string]any{"Id": "s" + b.lid, "promiseId": b.id, "timeout": time.Now().UnixMilli() + 3600_000, "recv": map[string]any{"type": "poll", "data": map[string]any{"group": "g", "id": b.lid}}}, nil)
				if res.Code != 201 {
					return fmt.Errorf("subscription answered %d %s", res.Code, truncate(string(res.Body), 200))
				}
				return nil
			})
			each(func(b *burstMsg) error {
				_, err := g.Promises.ResolvePromise(bctx, &pb.ResolvePromiseRequest{Id: b.id, Value: &pb.Value{Data: b.vdata, Headers: map[string]string{"h": b.lid}}})
				return err
			})
			for _, b := range bs {
				nb, ok := b.l.wait(func(x string) bool { return strings.Contains(x, `"notify"`) }, 25*time.Second)
				if !ok {
					fail("burst: no notification arrived at listener %s for promise %q within 25s", b.lid, b.id)
				}
				var nm struct {
					Promise wire `json:"promise"`
				}
				if err := json.Unmarshal([]byte(nb), &nm); err != nil || nm.Promise.Id != b.id || string(nm.Promise.Value.Data) != string(b.vdata) || string(nm.Promise.Param.Data) != string(b.data) || nm.Promise.Value.Headers["h"] != b.lid {
					fail("burst of %d notifications dispatched together: listener %s of promise %q (value %q) received %s (%v)", len(bs), b.lid, b.id, b.vdata, truncate(nb, 400), err)
				}
			}
			stats.Class("dispatched-bursts")
		default: // ---- D: schedules ----
			sid := mk(genId(rt, "sid"))
			viaGrpc := rapid.Bool().Draw(rt, "viaGrpc")
			pdata, ptags := genBytes(rt, "pdata"), genMapU(rt, "ptags")
			delete(ptags, "resonate:invoke")
			desc := genId(rt, "desc")
			tmpl := "{{.id}}|{{.timestamp}}"
			if viaGrpc {
				if _, err := g.Schedules.CreateSchedule(ctx, &pb.CreateScheduleRequest{Id: sid, Description: desc, Cron: "* * * * * *", PromiseId: tmpl, PromiseTimeout: 3600_000, PromiseParam: &pb.Value{Data: pdata}, PromiseTags: ptags}); err != nil {
					fail("gRPC create schedule %q: %v", sid, err)
				}
			} else {
				res := srv.PostJSON("/schedules", map[string]any{"id": sid, "desc": desc, "cron": "* * * * * *", "promiseId": tmpl, "promiseTimeout": 3600_000, "promiseParam": map[string]any{"data": pdata}, "promiseTags": ptags}, nil)
				if res.Code != 201 {
					fail("HTTP create schedule %q answered %d %s", sid, res.Code, truncate(string(res.Body), 200))
				}
			}
			// a companion schedule with other tags that falls due in the same sweep: what one schedule is configured
			// with must not leak into the promises of the other
			sid2, ptags2 := sid+"~2", map[string]string{"companion": "yes", "k": genId(rt, "ptag2")}
			if _, err := g.Schedules.CreateSchedule(ctx, &pb.CreateScheduleRequest{Id: sid2, Cron: "* * * * * *", PromiseId: tmpl, PromiseTimeout: 3600_000, PromiseTags: ptags2}); err != nil {
				fail("gRPC create schedule %q: %v", sid2, err)
			}
			rs, err := g.Schedules.ReadSchedule(ctx, &pb.ReadScheduleRequest{Id: sid})
			if err != nil || rs.Schedule.Id != sid || rs.Schedule.Description != desc || rs.Schedule.PromiseId != tmpl || string(rs.Schedule.PromiseParam.GetData()) != string(pdata) || !eqMap(rs.Schedule.PromiseTags, ptags) {
				fail("schedule %q read back as %v %v", sid, rs, err)
			}
			// wait for a firing: a promise tagged with the schedule id whose id is <schedule id>|<timestamp>
			var found, found2 *pb.Promise
			deadline := time.Now().Add(25 * time.Second)
			for time.Now().Before(deadline) && (found == nil || found2 == nil) {
				sr, err := g.Promises.SearchPromises(ctx, &pb.SearchPromisesRequest{Id: "*", Tags: map[string]string{"resonate:invocation": "true"}, Limit: 100})
				if err == nil {
					for _, p := range sr.Promises {
						// (found by the id the template gives them, not by the marker tag that is itself under test)
						if strings.HasPrefix(p.Id, sid+"|") {
							found = p
						}
						if strings.HasPrefix(p.Id, sid2+"|") {
							found2 = p
						}
					}
				}
				time.Sleep(150 * time.Millisecond)
			}
			_, _ = g.Schedules.DeleteSchedule(ctx, &pb.DeleteScheduleRequest{Id: sid})
			_, _ = g.Schedules.DeleteSchedule(ctx, &pb.DeleteScheduleRequest{Id: sid2})
			if found2 != nil {
				want2 := map[string]string{"resonate:schedule": sid2, "resonate:invocation": "true"}
				for k, v := range ptags2 {
					want2[k] = v
				}
				if !eqMap(found2.Tags, want2) {
					fail("promise created by schedule %q carries tags %q, want %q (schedule %q fired in the same sweep)", sid2, found2.Tags, want2, sid)
				}
			}
			if found == nil {
				fail("schedule %q did not fire within 25s", sid)
			} else {
				if !strings.HasPrefix(found.Id, sid+"|") {
					fail("scheduled promise id %q does not embed the schedule id %q unaltered", found.Id, sid)
				}
				want := map[string]string{"resonate:schedule": sid, "resonate:invocation": "true"}
				for k, v := range ptags {
					want[k] = v
				}
				if string(found.Param.GetData()) != string(pdata) || !eqMap(found.Tags, want) {
					fail("promise created by schedule %q carries param %q tags %q, want %q %q", sid, found.Param.GetData(), found.Tags, pdata, want)
				}
			}
			// the same schedule id again, with another id template: the promises of the new incarnation follow the new
			// template (nothing remembered from the deleted one)
			if rapid.Bool().Draw(rt, "recreate") {
				tmpl2 := "{{.id}}#{{.timestamp}}"
				if _, err := g.Schedules.CreateSchedule(ctx, &pb.CreateScheduleRequest{Id: sid, Cron: "* * * * * *", PromiseId: tmpl2, PromiseTimeout: 3600_000, PromiseTags: ptags}); err != nil {
					fail("gRPC re-create of schedule %q: %v", sid, err)
				}
				var again *pb.Promise
				var others []string
				deadline := time.Now().Add(25 * time.Second)
				for time.Now().Before(deadline) && again == nil {
					sr, err := g.Promises.SearchPromises(ctx, &pb.SearchPromisesRequest{Id: "*", Tags: map[string]string{"resonate:invocation": "true"}, Limit: 100})
					if err == nil {
						others = nil
						for _, p := range sr.Promises {
							if strings.HasPrefix(p.Id, sid+"#") {
								again = p
							} else if strings.HasPrefix(p.Id, sid+"|") {
								others = append(others, p.Id)
							}
						}
					}
					time.Sleep(150 * time.Millisecond)
				}
				_, _ = g.Schedules.DeleteSchedule(ctx, &pb.DeleteScheduleRequest{Id: sid})
				if again == nil {
					fail("schedule %q was deleted and created again with the id template %q: within 25 s no promise with an id of that template appeared (promises of the old template: %d)", sid, tmpl2, len(others))
				}
				stats.Class("schedule-recreated")
			}
			stats.Class("schedule")
			stats.Nontriv(sid, map[string]any{"schedule": sid, "created_promise": fmt.Sprint(found.GetId())})
		}
	})
	// ---- everything again after a restart ----
	srv.Kill()
	if err := srv.Start(); err != nil {
		t.Fatalf("VIOLATION C20 restart on the same database failed: %v", err)
	}
	for _, d := range stored {
		check(func(f string, a ...any) {
			msg := fmt.Sprintf(f, a...)
			core.SaveFailure("last", map[string]any{"violation": msg})
			t.Fatalf("VIOLATION C20 %s", msg)
		}, d, "after restart")
		stats.Eval()
	}
	stats.ClassN("reverified-after-restart", len(stored))
}
