// Package proc drives a real `resonate serve` process built from the tree under test: C13 (no input
// crashes, wedges or poisons the server), C20 (client data round-trips exactly), C06 tier (b) (kill/restart).
package proc

import (
	"bytes"
	"context"
	"database/sql"
	"encoding/json"
	"fmt"
	"io"
	"net"
	"net/http"
	"os"
	"os/exec"
	"path/filepath"
	"strings"
	"syscall"
	"time"

	_ "github.com/mattn/go-sqlite3"
	"github.com/resonatehq/resonate/internal/app/subsystems/api/grpc/pb"
	"github.com/resonatehq/resonate/internal/verif/core"
	"google.golang.org/grpc"
	"google.golang.org/grpc/credentials/insecure"
)

type Server struct {
	Bin     string
	DB      string
	Dir     string
	HTTP    string
	GRPC    string
	Poll    string
	Metrics string
	Extra   []string
	cmd     *exec.Cmd
	logPath string
	exited  chan struct{}
	exitErr error
	conn    *grpc.ClientConn
	n       int
}

func freePort() string {
	l, err := net.Listen("tcp", "127.0.0.1:0")
	if err != nil {
		panic(err)
	}
	defer l.Close()
	return l.Addr().String()
}

func ServerBin() string {
	b := os.Getenv("VERIF_SERVER_BIN")
	if b == "" {
		panic("VERIF_SERVER_BIN not set (the driver builds the server from the tree under test)")
	}
	return b
}

// NewServer prepares (does not start) a server on a database file in dir.
func NewServer(dir string, extra ...string) *Server {
	return &Server{Bin: ServerBin(), Dir: dir, DB: filepath.Join(dir, "resonate.db"), Extra: extra}
}

var httpClient = &http.Client{Timeout: 5 * time.Second}

// Start launches the process on fresh ports and waits until it answers. A port picked by freePort can be taken
// by another process before the server binds it (the machine runs other checks); that start is retried.
func (s *Server) Start() error {
	var err error
	for attempt := 0; attempt < 4; attempt++ {
		if err = s.start(); err == nil || !strings.Contains(err.Error(), "exited during start") {
			return err
		}
		time.Sleep(100 * time.Millisecond)
	}
	return err
}

func (s *Server) start() error {
	s.HTTP, s.GRPC, s.Poll, s.Metrics = freePort(), freePort(), freePort(), freePort()
	s.n++
	s.logPath = filepath.Join(s.Dir, fmt.Sprintf("server.%d.log", s.n))
	logf, err := os.Create(s.logPath)
	if err != nil {
		return err
	}
	args := []string{"serve",
		"--aio-store-sqlite-path", s.DB,
		"--api-http-addr", s.HTTP, "--api-grpc-addr", s.GRPC, "--aio-sender-plugin-poll-addr", s.Poll, "--metrics-addr", s.Metrics,
		"--system-url", "http://" + s.HTTP,
		"--log-level", "warn"}
	args = append(args, s.Extra...)
	s.cmd = exec.Command(s.Bin, args...)
	s.cmd.Dir = s.Dir
	s.cmd.Stdout, s.cmd.Stderr = logf, logf
	if err := s.cmd.Start(); err != nil {
		return err
	}
	s.exited = make(chan struct{})
	go func(cmd *exec.Cmd, done chan struct{}) {
		s.exitErr = cmd.Wait()
		logf.Close()
		close(done)
	}(s.cmd, s.exited)
	deadline := time.Now().Add(15 * time.Second)
	for time.Now().Before(deadline) {
		if !s.Alive() {
			return fmt.Errorf("server exited during start: %v\n%s", s.exitErr, s.LogTail(30))
		}
		if s.Health(500*time.Millisecond) == nil {
			return nil
		}
		time.Sleep(50 * time.Millisecond)
	}
	return fmt.Errorf("server did not come up within 15s\n%s", s.LogTail(30))
}

func (s *Server) Alive() bool {
	if s.cmd == nil {
		return false
	}
	select {
	case <-s.exited:
		return false
	default:
		return true
	}
}

// Health sends a harmless read; any HTTP answer means the kernel loop is serving requests.
func (s *Server) Health(timeout time.Duration) error {
	ctx, cancel := context.WithTimeout(context.Background(), timeout)
	defer cancel()
	req, _ := http.NewRequestWithContext(ctx, "GET", "http://"+s.HTTP+"/promises/verif-healthcheck", nil)
	resp, err := http.DefaultClient.Do(req)
	if err != nil {
		return err
	}
	io.Copy(io.Discard, resp.Body)
	resp.Body.Close()
	if resp.StatusCode != 404 && resp.StatusCode != 200 {
		return fmt.Errorf("health request answered %d", resp.StatusCode)
	}
	return nil
}

func (s *Server) signal(sig syscall.Signal, wait time.Duration) error {
	if !s.Alive() {
		return nil
	}
	_ = s.cmd.Process.Signal(sig)
	select {
	case <-s.exited:
		return nil
	case <-time.After(wait):
		_ = s.cmd.Process.Kill()
		<-s.exited
		return fmt.Errorf("server did not exit within %s after signal %v", wait, sig)
	}
}

func (s *Server) Kill() {
	if s.conn != nil {
		s.conn.Close()
		s.conn = nil
	}
	_ = s.signal(syscall.SIGKILL, 5*time.Second)
}

// Term requests a graceful shutdown.
func (s *Server) Term(sig syscall.Signal) error {
	if s.conn != nil {
		s.conn.Close()
		s.conn = nil
	}
	return s.signal(sig, 20*time.Second)
}

func (s *Server) LogTail(n int) string {
	b, _ := os.ReadFile(s.logPath)
	lines := strings.Split(strings.TrimRight(string(b), "\n"), "\n")
	if len(lines) > n {
		lines = lines[len(lines)-n:]
	}
	return strings.Join(lines, "\n")
}

// Snapshot reads the five tables through a separate read-only connection on the server's database file.
func (s *Server) Snapshot() (sn core.Snapshot, err error) {
	db, err := sql.Open("sqlite3", "file:"+s.DB+"?mode=ro&_busy_timeout=5000")
	if err != nil {
		return nil, err
	}
	defer db.Close()
	defer func() {
		if p := recover(); p != nil {
			err = fmt.Errorf("%v", p)
		}
	}()
	return core.Snap(db), nil
}

// ---- HTTP ----

type HTTPReq struct {
	Method  string            `json:"method"`
	Path    string            `json:"path"`
	Body    string            `json:"body,omitempty"`
	Headers map[string]string `json:"headers,omitempty"`
	// gRPC request instead of HTTP (Method == "GRPC"): name of the rpc and a JSON rendering for the replay file
	Grpc func(c *GrpcClients, ctx context.Context) error `json:"-"`
	Note string                                          `json:"note,omitempty"`
}

type HTTPRes struct {
	Code int
	Body []byte
	Err  error
}

func (s *Server) Do(r HTTPReq) HTTPRes {
	req, err := http.NewRequest(r.Method, "http://"+s.HTTP+r.Path, bytes.NewReader([]byte(r.Body)))
	if err != nil {
		return HTTPRes{Err: err}
	}
	if r.Body != "" {
		req.Header.Set("Content-Type", "application/json")
	}
	for k, v := range r.Headers {
		req.Header.Set(k, v)
	}
	resp, err := httpClient.Do(req)
	if err != nil {
		return HTTPRes{Err: err}
	}
	defer resp.Body.Close()
	b, _ := io.ReadAll(io.LimitReader(resp.Body, 4<<20))
	return HTTPRes{Code: resp.StatusCode, Body: b}
}

func (s *Server) PostJSON(path string, body any, headers map[string]string) HTTPRes {
	b, _ := json.Marshal(body)
	return s.Do(HTTPReq{Method: "POST", Path: path, Body: string(b), Headers: headers})
}

// ---- gRPC ----

type GrpcClients struct {
	Promises      pb.PromisesClient
	Callbacks     pb.CallbacksClient
	Subscriptions pb.SubscriptionsClient
	Schedules     pb.SchedulesClient
	Locks         pb.LocksClient
	Tasks         pb.TasksClient
}

func (s *Server) Grpc() *GrpcClients {
	if s.conn == nil {
		conn, err := grpc.NewClient(s.GRPC, grpc.WithTransportCredentials(insecure.NewCredentials()), grpc.WithDefaultCallOptions(grpc.MaxCallRecvMsgSize(16<<20)))
		if err != nil {
			panic(err)
		}
		s.conn = conn
	}
	return &GrpcClients{pb.NewPromisesClient(s.conn), pb.NewCallbacksClient(s.conn), pb.NewSubscriptionsClient(s.conn), pb.NewSchedulesClient(s.conn), pb.NewLocksClient(s.conn), pb.NewTasksClient(s.conn)}
}
