package proc

import (
	"database/sql"
	"encoding/json"
	"fmt"
	"os"
	"strings"
	"sync"
	"syscall"
	"testing"
	"time"

	"github.com/resonatehq/resonate/internal/verif/core"
	"github.com/resonatehq/resonate/internal/verif/sim"
	"pgregory.net/rapid"
)

type ack struct {
	kind  string // promise | completed | schedule | lock | callback
	id    string
	data  string
	state string
}

// TestC06b — tier (b) of C06: a real server process is killed at a drawn instant under load (SIGKILL) or shut
// down gracefully (SIGTERM / SIGINT) with the DEFAULT store configuration, restarted on the same file, and every
// acknowledged write is read back.
func TestC06b(t *testing.T) {
	stats := core.NewStats("C06", "tier (b): real `resonate serve` with the default store configuration (only the path set); rapid draws a workload (3 concurrent HTTP clients: creates with routing tags, completions, registrations, schedules, locks), the way the process ends (SIGKILL at a drawn instant under load, SIGTERM, SIGINT) and the number of kill/restart rounds; after each restart on the same file every acknowledged write is read back and the database file is checked for torn requests. Non-trivial: the process was killed while requests were in flight. Kill instants are wall-clock and not reproducible; the acknowledged set and the server log are saved on failure.")
	defer stats.Write()
	dir := core.Scratch("verif-c06b-")
	defer os.RemoveAll(dir)
	n := 0
	rapid.Check(t, func(rt *rapid.T) {
		n++
		stats.Eval()
		cdir := fmt.Sprintf("%s/c%d", dir, n)
		_ = os.MkdirAll(cdir, 0o755)
		srv := NewServer(cdir, "--system-signal-timeout", "100ms", "--system-task-enqueue-delay", "300ms")
		if err := srv.Start(); err != nil {
			rt.Fatalf("INCONCLUSIVE start: %v", err)
		}
		defer srv.Kill()
		var mu sync.Mutex
		acks := map[string]ack{}
		fail := func(f string, a ...any) {
			msg := fmt.Sprintf(f, a...)
			mu.Lock()
			core.SaveFailure("last", map[string]any{"violation": msg, "acknowledged": fmt.Sprint(acks), "server_log": srv.LogTail(40)})
			mu.Unlock()
			rt.Fatalf("VIOLATION C06 %s", msg)
		}
		rounds := rapid.IntRange(1, 3).Draw(rt, "rounds")
		for round := 0; round < rounds; round++ {
			how := rapid.SampledFrom([]string{"kill", "kill", "journal", "journal", "term", "int"}).Draw(rt, "how")
			// "journal": SIGKILL at the moment sqlite's rollback journal exists, i.e. in the middle of a store transaction
			// (larger payloads and more clients make those moments longer); the restart has to roll that transaction back
			if forced := os.Getenv("VERIF_C06B_HOW"); forced != "" {
				how = forced
			} else if n <= 4 && round == 0 {
				how = "journal" // every run has some kills in the middle of a store transaction
			}
			nclients, pad := 3, ""
			if how == "journal" {
				nclients, pad = 200, strings.Repeat("x", 64*1024) // one store batch of these outgrows sqlite's page cache: pages reach the file before COMMIT
			}
			killAfter := time.Duration(rapid.IntRange(0, 500).Draw(rt, "killAfterMs")) * time.Millisecond
			stop := make(chan struct{})
			var wg sync.WaitGroup
			inflight := 0
			for c := 0; c < nclients; c++ {
				wg.Add(1)
				go func(c int) {
					defer wg.Done()
					for i := 0; ; i++ {
						select {
						case <-stop:
							return
						default:
						}
						id := fmt.Sprintf("r%d-c%d-%d", round, c, i)
						far := time.Now().UnixMilli() + 3600_000
						mu.Lock()
						inflight++
						mu.Unlock()
						switch i % 5 {
						case 0, 1:
							tags := map[string]string{}
							if i%2 == 0 {
								tags["resonate:invoke"] = "poll://g/w"
							}
							res := srv.PostJSON("/promises", map[string]any{"id": id, "timeout": far, "param": map[string]any{"data": []byte(id), "headers": map[string]string{"pad": pad}}, "tags": tags}, nil)
							if res.Code == 201 {
								mu.Lock()
								acks["promise:"+id] = ack{kind: "promise", id: id, data: id}
								mu.Unlock()
								r2 := srv.PostJSON("/subscriptions", map[string]any{"Id": "s", "promiseId": id, "timeout": far, "recv": "poll://g/w"}, nil)
								if r2.Code == 201 {
									mu.Lock()
									acks["callback:"+id] = ack{kind: "callback", id: "__notify:" + id + ":s"}
									mu.Unlock()
								}
							}
						case 2:
							prev := fmt.Sprintf("r%d-c%d-%d", round, c, i-2)
							res := srv.Do(HTTPReq{Method: "PATCH", Path: "/promises/" + prev, Body: fmt.Sprintf(`{"state":"RESOLVED","value":{"data":"%s"}}`, "dg=="), Headers: map[string]string{"Content-Type": "application/json"}})
							if res.Code == 201 {
								mu.Lock()
								acks["completed:"+prev] = ack{kind: "completed", id: prev, state: "RESOLVED"}
								delete(acks, "callback:"+prev)
								mu.Unlock()
							}
						case 3:
							res := srv.PostJSON("/schedules", map[string]any{"id": id, "cron": "0 0 1 1 *", "promiseId": id + ".{{.timestamp}}", "promiseTimeout": 1000}, nil)
							if res.Code == 201 {
								mu.Lock()
								acks["schedule:"+id] = ack{kind: "schedule", id: id}
								mu.Unlock()
							}
						default:
							res := srv.PostJSON("/locks/acquire", map[string]any{"resourceId": id, "executionId": "e", "processId": "p", "ttl": 3600_000}, nil)
							if res.Code == 201 {
								mu.Lock()
								acks["lock:"+id] = ack{kind: "lock", id: id}
								mu.Unlock()
							}
						}
						mu.Lock()
						inflight--
						mu.Unlock()
					}
				}(c)
			}
			time.Sleep(killAfter)
			mu.Lock()
			wasInflight := inflight
			mu.Unlock()
			switch how {
			case "journal":
				deadline := time.Now().Add(4 * time.Second)
				seen := false
				size0 := int64(-1)
				for time.Now().Before(deadline) {
					// the journal exists and the database file has grown since it appeared: pages of the open transaction
					// are being written to the file (cache spill or COMMIT in progress)
					if _, err := os.Stat(srv.DB + "-journal"); err == nil {
						if fi, err := os.Stat(srv.DB); err == nil {
							if size0 < 0 {
								size0 = fi.Size()
							} else if fi.Size()-size0 >= 1<<20 {
								seen = true
								break
							}
						}
					} else {
						size0 = -1
					}
					time.Sleep(50 * time.Microsecond)
				}
				srv.Kill()
				stats.Class(fmt.Sprintf("killed-while-journal-exists=%v", seen))
				how = "kill"
			case "kill":
				srv.Kill()
			case "term":
				if err := srv.Term(syscall.SIGTERM); err != nil {
					close(stop)
					wg.Wait()
					fail("graceful shutdown (SIGTERM): %v\n%s", err, srv.LogTail(20))
				}
			case "int":
				if err := srv.Term(syscall.SIGINT); err != nil {
					close(stop)
					wg.Wait()
					fail("graceful shutdown (SIGINT): %v\n%s", err, srv.LogTail(20))
				}
			}
			close(stop)
			wg.Wait()
			stats.Class("ended-by:" + how)
			if how == "kill" && wasInflight > 0 {
				stats.Nontriv(fmt.Sprintf("%d-%d-%s-%v", n, round, how, killAfter), map[string]any{"ended_by": how, "after": killAfter.String(), "requests_in_flight": wasInflight, "acknowledged_writes": len(acks)})
			}
			if _, err := os.Stat(srv.DB); err != nil {
				fail("the database file is gone after the process ended by %s: %v", how, err)
			}
			// now and then the first start attempt meets a database another process still holds (the old server not quite
			// dead, a second server on the same file, an operator's session): that attempt may fail, the data may not
			if rapid.IntRange(0, 3).Draw(rt, "lockedStart") == 0 {
				if db, err := sql.Open("sqlite3", "file:"+srv.DB+"?_busy_timeout=100&_txlock=immediate"); err == nil {
					if tx, err := db.Begin(); err == nil {
						_, _ = tx.Exec("CREATE TABLE IF NOT EXISTS verif_lock_holder (x INTEGER)")
						errStart := srv.start() // one attempt, no retry
						if errStart == nil {
							srv.Kill() // it came up all the same (it did not need the write lock yet): fine
						}
						_ = tx.Rollback()
						stats.Class(fmt.Sprintf("start-attempt-on-locked-database:failed=%v", errStart != nil))
					}
					db.Close()
				}
				if _, err := os.Stat(srv.DB); err != nil {
					fail("the database file is gone after a start attempt on the locked database: %v", err)
				}
			}
			if err := srv.Start(); err != nil {
				fail("restart on the same database after %s failed: %v", how, err)
			}
			// ---- read back ----
			sn, err := srv.Snapshot()
			if err != nil {
				fail("cannot read the database after restart: %v", err)
			}
			if db, err := sql.Open("sqlite3", "file:"+srv.DB+"?mode=ro&_busy_timeout=5000"); err == nil {
				var res string
				if err := db.QueryRow("PRAGMA integrity_check").Scan(&res); err != nil || res != "ok" {
					db.Close()
					fail("after %s and restart the database file does not pass sqlite's integrity check: %q %v", how, res, err)
				}
				db.Close()
			}
			for _, v := range sim.JudgeSnapshot(sn) {
				fail("after %s and restart the stored state is torn: %s", how, v.Msg)
			}
			mu.Lock()
			for _, a := range acks {
				switch a.kind {
				case "promise", "completed":
					row, ok := sn["promises"][a.id]
					if !ok {
						fail("acknowledged promise %s is gone after %s + restart", a.id, how)
					}
					if a.kind == "promise" && row.S("param_data") != a.data {
						fail("acknowledged promise %s changed: param %q", a.id, row.S("param_data"))
					}
					if a.kind == "completed" && row.I("state") != 2 {
						fail("acknowledged completion of %s is gone after %s + restart: state %d", a.id, how, row.I("state"))
					}
				case "schedule":
					if _, ok := sn["schedules"][a.id]; !ok {
						fail("acknowledged schedule %s is gone after %s + restart", a.id, how)
					}
				case "lock":
					if _, ok := sn["locks"][a.id]; !ok {
						fail("acknowledged lock %s is gone after %s + restart", a.id, how)
					}
				case "callback":
					_, cb := sn["callbacks"][a.id]
					_, tk := sn["tasks"][a.id]
					if !cb && !tk {
						fail("acknowledged subscription %s is gone after %s + restart", a.id, how)
					}
				}
			}
			// through the API as well (a sample)
			k := 0
			for _, a := range acks {
				if a.kind == "promise" && k < 5 {
					k++
					res := srv.Do(HTTPReq{Method: "GET", Path: "/promises/" + a.id})
					var w wire
					_ = json.Unmarshal(res.Body, &w)
					if res.Code != 200 || string(w.Param.Data) != a.data {
						fail("acknowledged promise %s reads back as %d %s after %s + restart", a.id, res.Code, truncate(string(res.Body), 200), how)
					}
				}
			}
			mu.Unlock()
		}
		// background processing resumes from the stored state: a short-lived promise created now is timed out by the sweep
		res := srv.PostJSON("/promises", map[string]any{"id": "resume-check", "timeout": time.Now().UnixMilli() + 150}, nil)
		if res.Code == 201 {
			ok := false
			for i := 0; i < 40 && !ok; i++ {
				time.Sleep(100 * time.Millisecond)
				if sn, err := srv.Snapshot(); err == nil {
					if row, has := sn["promises"]["resume-check"]; has && row.I("state") == 16 {
						ok = true
					}
				}
			}
			if !ok {
				fail("after the restarts the background sweep did not time out an overdue promise within 4s")
			}
		}
	})
}
