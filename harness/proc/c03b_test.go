package proc

import (
	"context"
	"encoding/json"
	"fmt"
	"os"
	"strings"
	"testing"
	"time"

	"github.com/resonatehq/resonate/internal/app/subsystems/api/grpc/pb"
	"github.com/resonatehq/resonate/internal/verif/core"
	"google.golang.org/grpc/codes"
	"google.golang.org/grpc/status"
	"pgregory.net/rapid"
)

// TestC03b — C03 through the two protocols of a real server: a sequential history of create / create-with-task /
// complete requests on one id, every request sent through HTTP or gRPC as drawn, judged against a reference
// model of the statement (idempotent by key, strict exception, non-strict completion of a timed-out promise is
// acknowledged, at most one creation / completion / task). The simulator tier (TestC03) owns the interleavings;
// this tier owns the path of the key, the strict flag and the requested state through both front ends.

type c03Model struct {
	exists   bool
	state    string // PENDING RESOLVED REJECTED REJECTED_CANCELED REJECTED_TIMEDOUT
	ikc, ikv string
	overdue  bool // timeout already passed: the next request that touches it lets the time-out take effect
	value    string
}

type c03Out struct {
	class string // created | ok | exists | forbidden | notfound | other:<detail>
	state string
	value string
}

func classifyHTTP(res HTTPRes) c03Out {
	if res.Err != nil {
		return c03Out{class: "other:" + res.Err.Error()}
	}
	var body struct {
		Promise *struct {
			State string `json:"state"`
			Value struct {
				Data []byte `json:"data"`
			} `json:"value"`
		} `json:"promise"`
		State string `json:"state"`
		Value struct {
			Data []byte `json:"data"`
		} `json:"value"`
	}
	_ = json.Unmarshal(res.Body, &body)
	st, val := body.State, string(body.Value.Data)
	if body.Promise != nil {
		st, val = body.Promise.State, string(body.Promise.Value.Data)
	}
	switch res.Code {
	case 201:
		return c03Out{"created", st, val}
	case 200:
		return c03Out{"ok", st, val}
	case 409:
		return c03Out{class: "exists"}
	case 403:
		return c03Out{class: "forbidden"}
	case 404:
		return c03Out{class: "notfound"}
	}
	return c03Out{class: fmt.Sprintf("other:%d %s", res.Code, truncate(string(res.Body), 120))}
}

func classifyGRPC(noop bool, p *pb.Promise, err error) c03Out {
	if err != nil {
		switch status.Code(err) {
		case codes.AlreadyExists:
			return c03Out{class: "exists"}
		case codes.PermissionDenied:
			return c03Out{class: "forbidden"}
		case codes.NotFound:
			return c03Out{class: "notfound"}
		}
		return c03Out{class: "other:" + err.Error()}
	}
	o := c03Out{class: "created"}
	if noop {
		o.class = "ok"
	}
	if p != nil {
		o.state, o.value = p.State.String(), string(p.Value.GetData())
	}
	return o
}

func TestC03b(t *testing.T) {
	stats := core.NewStats("C03", "tier (b): a real `resonate serve`; rapid draws a SEQUENTIAL history of 3-8 create / create-with-task / complete requests on one fresh id (key absent / k1 / k2, strict flag, requested state, promise far from or already past its timeout), each sent through HTTP or gRPC as drawn. Oracle: reference model of the statement (outcome class, returned state and value), at most one promises row and one task row for the id in the database file, the stored completion never changes. Non-trivial: the history contains a repeat with the key the promise carries AND requests through both protocols. Distinct = the history.")
	defer stats.Write()
	dir := core.Scratch("verif-c03b-")
	defer os.RemoveAll(dir)
	srv := NewServer(dir, "--system-signal-timeout", "200ms")
	if err := srv.Start(); err != nil {
		t.Fatalf("INCONCLUSIVE server start: %v", err)
	}
	defer srv.Kill()
	n := 0
	rapid.Check(t, func(rt *rapid.T) {
		n++
		stats.Eval()
		if !srv.Alive() {
			rt.Fatalf("VIOLATION C03 the server died: %s", srv.LogTail(30))
		}
		id := fmt.Sprintf("c03b.%d", n)
		past := rapid.IntRange(0, 3).Draw(rt, "past") == 0
		timeout := time.Now().UnixMilli() + 3600_000
		if past {
			timeout = 1
		}
		m := &c03Model{}
		g := srv.Grpc()
		var hist []string
		fail := func(f string, a ...any) {
			msg := fmt.Sprintf(f, a...) + "\n history:\n  " + strings.Join(hist, "\n  ")
			core.SaveFailure("last", map[string]any{"violation": msg, "server_log": srv.LogTail(20)})
			rt.Fatalf("VIOLATION C03 %s", msg)
		}
		usedHTTP, usedGRPC, keyedRepeat := false, false, false
		steps := rapid.IntRange(3, 8).Draw(rt, "steps")
		for i := 0; i < steps; i++ {
			viaGrpc := rapid.Bool().Draw(rt, "viaGrpc")
			usedGRPC = usedGRPC || viaGrpc
			usedHTTP = usedHTTP || !viaGrpc
			strict := rapid.Bool().Draw(rt, "strict")
			key := rapid.SampledFrom([]string{"", "k1", "k1", "k2"}).Draw(rt, "key")
			op := rapid.SampledFrom([]string{"create", "create", "createWithTask", "complete", "complete", "complete"}).Draw(rt, "op")
			ctx, cancel := context.WithTimeout(context.Background(), 8*time.Second)
			var got c03Out
			var want c03Out
			hdr := map[string]string{}
			if key != "" {
				hdr["idempotency-key"] = key
			}
			if strict {
				hdr["strict"] = "true"
			}
			// the time-out of an overdue promise takes effect with the first request that touches it
			lazy := func() {
				if m.exists && m.state == "PENDING" && m.overdue {
					m.state, m.ikv, m.value = "REJECTED_TIMEDOUT", "", ""
				}
			}
			switch op {
			case "create", "createWithTask":
				desc := fmt.Sprintf("%s(key=%q strict=%v) via grpc=%v", op, key, strict, viaGrpc)
				if !m.exists {
					want = c03Out{"created", "PENDING", ""}
				} else {
					lazy()
					if key != "" && key == m.ikc && !(strict && m.state != "PENDING") {
						want = c03Out{"ok", m.state, m.value}
						keyedRepeat = true
					} else {
						want = c03Out{class: "exists"}
					}
				}
				if viaGrpc {
					cr := &pb.CreatePromiseRequest{Id: id, IdempotencyKey: key, Strict: strict, Timeout: timeout, Param: &pb.Value{Data: []byte("p")}, Tags: map[string]string{"resonate:invoke": "poll://c03b/w"}}
					if op == "create" {
						r, err := g.Promises.CreatePromise(ctx, cr)
						got = classifyGRPC(r.GetNoop(), r.GetPromise(), err)
					} else {
						r, err := g.Promises.CreatePromiseAndTask(ctx, &pb.CreatePromiseAndTaskRequest{Promise: cr, Task: &pb.CreatePromiseTaskRequest{ProcessId: "w", Ttl: 60000}})
						got = classifyGRPC(r.GetNoop(), r.GetPromise(), err)
					}
				} else {
					pbody := map[string]any{"id": id, "timeout": timeout, "param": map[string]any{"data": []byte("p")}, "tags": map[string]string{"resonate:invoke": "poll://c03b/w"}}
					if op == "create" {
						got = classifyHTTP(srv.PostJSON("/promises", pbody, hdr))
					} else {
						got = classifyHTTP(srv.PostJSON("/promises/task", map[string]any{"promise": pbody, "task": map[string]any{"processId": "w", "ttl": 60000}}, hdr))
					}
				}
				if want.class == "created" {
					m.exists, m.state, m.ikc, m.overdue = true, "PENDING", key, past
				}
				hist = append(hist, fmt.Sprintf("%s -> %+v (model: %+v)", desc, got, want))
			case "complete":
				state := rapid.SampledFrom([]string{"RESOLVED", "REJECTED", "REJECTED_CANCELED"}).Draw(rt, "state")
				val := fmt.Sprintf("v%d", i)
				desc := fmt.Sprintf("complete(%s key=%q strict=%v) via grpc=%v", state, key, strict, viaGrpc)
				switch {
				case !m.exists:
					want = c03Out{class: "notfound"}
				default:
					lazy()
					switch {
					case m.state == "PENDING":
						want = c03Out{"created", state, val}
						m.state, m.ikv, m.value = state, key, val
					case key != "" && key == m.ikv && !(strict && m.state != state):
						want = c03Out{"ok", m.state, m.value}
						keyedRepeat = true
					case !strict && m.state == "REJECTED_TIMEDOUT":
						want = c03Out{"ok", m.state, m.value}
					default:
						want = c03Out{class: "forbidden"}
					}
				}
				if viaGrpc {
					v := &pb.Value{Data: []byte(val)}
					switch state {
					case "RESOLVED":
						r, err := g.Promises.ResolvePromise(ctx, &pb.ResolvePromiseRequest{Id: id, IdempotencyKey: key, Strict: strict, Value: v})
						got = classifyGRPC(r.GetNoop(), r.GetPromise(), err)
					case "REJECTED":
						r, err := g.Promises.RejectPromise(ctx, &pb.RejectPromiseRequest{Id: id, IdempotencyKey: key, Strict: strict, Value: v})
						got = classifyGRPC(r.GetNoop(), r.GetPromise(), err)
					default:
						r, err := g.Promises.CancelPromise(ctx, &pb.CancelPromiseRequest{Id: id, IdempotencyKey: key, Strict: strict, Value: v})
						got = classifyGRPC(r.GetNoop(), r.GetPromise(), err)
					}
				} else {
					b, _ := json.Marshal(map[string]any{"state": state, "value": map[string]any{"data": []byte(val)}})
					got = classifyHTTP(srv.Do(HTTPReq{Method: "PATCH", Path: "/promises/" + id, Body: string(b), Headers: hdr}))
				}
				hist = append(hist, fmt.Sprintf("%s -> %+v (model: %+v)", desc, got, want))
			}
			cancel()
			// (a new promise whose timeout is already reached is answered 201 PENDING: the listed finding F13 of C04, not
			// C03's subject; either rendering of the new promise is accepted here)
			newOverdue := want.class == "created" && past && (op == "create" || op == "createWithTask") && got.class == "created" && got.state == "REJECTED_TIMEDOUT"
			if !newOverdue && (got.class != want.class || (want.class == "created" || want.class == "ok") && (got.state != want.state || got.value != want.value)) {
				fail("request %d of the history was answered %+v, the statement gives %+v", i+1, got, want)
			}
			// the database: one promise row at most, one task at most, stored completion as the model says
			sn, err := srv.Snapshot()
			if err != nil {
				continue
			}
			row := sn["promises"][id]
			if m.exists != (row != nil) {
				fail("after request %d the promise row exists=%v, the model says %v", i+1, row != nil, m.exists)
			}
			if row != nil {
				stored := map[int64]string{1: "PENDING", 2: "RESOLVED", 4: "REJECTED", 8: "REJECTED_CANCELED", 16: "REJECTED_TIMEDOUT"}[row.I("state")]
				if stored != m.state && !(m.state == "PENDING" && m.overdue && stored == "REJECTED_TIMEDOUT") {
					fail("after request %d the stored promise is %s (%s), the model says %s", i+1, stored, core.RowString(row), m.state)
				}
				if m.state != "PENDING" && m.state != "REJECTED_TIMEDOUT" && (row.S("value_data") != m.value || row.S("idempotency_key_for_complete") != m.ikv) {
					fail("after request %d the stored completion is %s, the model says value %q key %q", i+1, core.RowString(row), m.value, m.ikv)
				}
				if row.S("idempotency_key_for_create") != m.ikc && !(m.ikc == "" && row.Null("idempotency_key_for_create")) {
					fail("after request %d the stored creation key is %v, the model says %q", i+1, row["idempotency_key_for_create"], m.ikc)
				}
			}
			ntasks := 0
			for _, tk := range sn["tasks"] {
				if tk.S("root_promise_id") == id {
					ntasks++
				}
			}
			if ntasks > 1 {
				fail("after request %d there are %d tasks for promise %s", i+1, ntasks, id)
			}
		}
		stats.Class(map[bool]string{true: "overdue-promise", false: "live-promise"}[past])
		if keyedRepeat {
			stats.Class("repeat-with-the-promise's-key")
		}
		if keyedRepeat && usedHTTP && usedGRPC {
			stats.Nontriv(strings.Join(hist, "|"), map[string]any{"history": hist})
		}
	})
}
