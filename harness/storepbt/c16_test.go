package storepbt

import (
	"database/sql"
	"fmt"
	"os"
	"path/filepath"
	"reflect"
	"sort"
	"strings"
	"testing"
	"time"

	"github.com/prometheus/client_golang/prometheus"
	"github.com/resonatehq/resonate/internal/app/subsystems/aio/store/sqlite"
	"github.com/resonatehq/resonate/internal/kernel/bus"
	"github.com/resonatehq/resonate/internal/kernel/t_aio"
	"github.com/resonatehq/resonate/internal/metrics"
	"github.com/resonatehq/resonate/internal/verif/core"
	"github.com/resonatehq/resonate/pkg/lock"
	"github.com/resonatehq/resonate/pkg/promise"
	"github.com/resonatehq/resonate/pkg/schedule"
	"github.com/resonatehq/resonate/pkg/task"
	"pgregory.net/rapid"
)

type SQE = bus.SQE[t_aio.Submission, t_aio.Completion]
type CQE = bus.CQE[t_aio.Submission, t_aio.Completion]

type processor interface {
	Process([]*SQE) []*CQE
}

func sqes(txs []*t_aio.Transaction) []*SQE {
	out := make([]*SQE, len(txs))
	for i, tx := range txs {
		out[i] = &SQE{Id: fmt.Sprint("b", i), Submission: &t_aio.Submission{Kind: t_aio.Store, Tags: map[string]string{"id": fmt.Sprint("b", i)}, Store: &t_aio.StoreSubmission{Transaction: tx}}, Callback: func(*t_aio.Completion, error) {}}
	}
	return out
}

func norm(v any) string {
	switch x := v.(type) {
	case nil:
		return ""
	case []byte:
		return string(x)
	case *int64:
		if x == nil {
			return ""
		}
		return fmt.Sprint(*x)
	case *string:
		if x == nil {
			return ""
		}
		return *x
	}
	rv := reflect.ValueOf(v)
	if rv.Kind() == reflect.Ptr {
		if rv.IsNil() {
			return ""
		}
		return fmt.Sprint(rv.Elem().Interface())
	}
	return fmt.Sprint(v)
}

func promiseRow(r *promise.PromiseRecord) map[string]string {
	return map[string]string{"id": r.Id, "state": fmt.Sprint(int(r.State)), "param_headers": norm(r.ParamHeaders), "param_data": norm(r.ParamData), "value_headers": norm(r.ValueHeaders), "value_data": norm(r.ValueData),
		"timeout": fmt.Sprint(r.Timeout), "idempotency_key_for_create": norm(r.IdempotencyKeyForCreate), "idempotency_key_for_complete": norm(r.IdempotencyKeyForComplete), "tags": norm(r.Tags),
		"created_on": norm(r.CreatedOn), "completed_on": norm(r.CompletedOn), "sort_id": fmt.Sprint(r.SortId)}
}

func scheduleRow(r *schedule.ScheduleRecord) map[string]string {
	return map[string]string{"id": r.Id, "description": r.Description, "cron": r.Cron, "tags": norm(r.Tags), "promise_id": r.PromiseId, "promise_timeout": fmt.Sprint(r.PromiseTimeout),
		"promise_param_headers": norm(r.PromiseParamHeaders), "promise_param_data": norm(r.PromiseParamData), "promise_tags": norm(r.PromiseTags), "last_run_time": norm(r.LastRunTime),
		"next_run_time": fmt.Sprint(r.NextRunTime), "idempotency_key": norm(r.IdempotencyKey), "created_on": fmt.Sprint(r.CreatedOn), "sort_id": fmt.Sprint(r.SortId)}
}

func taskRow(r *task.TaskRecord) map[string]string {
	return map[string]string{"id": r.Id, "process_id": norm(r.ProcessId), "state": fmt.Sprint(int(r.State)), "root_promise_id": r.RootPromiseId, "recv": norm(r.Recv), "mesg": norm(r.Mesg), "timeout": fmt.Sprint(r.Timeout),
		"counter": fmt.Sprint(r.Counter), "attempt": fmt.Sprint(r.Attempt), "ttl": fmt.Sprint(r.Ttl), "expires_at": fmt.Sprint(r.ExpiresAt), "created_on": norm(r.CreatedOn), "completed_on": norm(r.CompletedOn)}
}

func lockRow(r *lock.LockRecord) map[string]string {
	return map[string]string{"resource_id": r.ResourceId, "process_id": r.ProcessId, "execution_id": r.ExecutionId, "ttl": fmt.Sprint(r.Ttl), "expires_at": fmt.Sprint(r.ExpiresAt)}
}

// resultRows extracts (rowsReturned, lastSortId, records as maps, alter counts) from a result.
func resultRows(r *t_aio.Result) (n int64, last int64, recs []map[string]string, alter []int64) {
	qp := func(q *t_aio.QueryPromisesResult) {
		n, last = q.RowsReturned, q.LastSortId
		for _, x := range q.Records {
			recs = append(recs, promiseRow(x))
		}
	}
	qs := func(q *t_aio.QuerySchedulesResult) {
		n, last = q.RowsReturned, q.LastSortId
		for _, x := range q.Records {
			recs = append(recs, scheduleRow(x))
		}
	}
	qt := func(q *t_aio.QueryTasksResult) {
		n = q.RowsReturned
		for _, x := range q.Records {
			recs = append(recs, taskRow(x))
		}
	}
	switch r.Kind {
	case t_aio.ReadPromise:
		qp(r.ReadPromise)
	case t_aio.ReadPromises:
		qp(r.ReadPromises)
	case t_aio.SearchPromises:
		qp(r.SearchPromises)
	case t_aio.ReadSchedule:
		qs(r.ReadSchedule)
	case t_aio.ReadSchedules:
		qs(r.ReadSchedules)
	case t_aio.SearchSchedules:
		qs(r.SearchSchedules)
	case t_aio.ReadTask:
		qt(r.ReadTask)
	case t_aio.ReadTasks:
		qt(r.ReadTasks)
	case t_aio.ReadEnqueueableTasks:
		qt(r.ReadEnqueueableTasks)
	case t_aio.ReadLock:
		n = r.ReadLock.RowsReturned
		for _, x := range r.ReadLock.Records {
			recs = append(recs, lockRow(x))
		}
	case t_aio.CreatePromise:
		alter = []int64{r.CreatePromise.RowsAffected}
	case t_aio.UpdatePromise:
		alter = []int64{r.UpdatePromise.RowsAffected}
	case t_aio.CreateCallback:
		alter = []int64{r.CreateCallback.RowsAffected}
	case t_aio.DeleteCallbacks:
		alter = []int64{r.DeleteCallbacks.RowsAffected}
	case t_aio.CreateSchedule:
		alter = []int64{r.CreateSchedule.RowsAffected}
	case t_aio.UpdateSchedule:
		alter = []int64{r.UpdateSchedule.RowsAffected}
	case t_aio.DeleteSchedule:
		alter = []int64{r.DeleteSchedule.RowsAffected}
	case t_aio.CreateTask:
		alter = []int64{r.CreateTask.RowsAffected}
	case t_aio.CreateTasks:
		alter = []int64{r.CreateTasks.RowsAffected}
	case t_aio.CompleteTasks:
		alter = []int64{r.CompleteTasks.RowsAffected}
	case t_aio.UpdateTask:
		alter = []int64{r.UpdateTask.RowsAffected}
	case t_aio.HeartbeatTasks:
		alter = []int64{r.HeartbeatTasks.RowsAffected}
	case t_aio.CreatePromiseAndTask:
		alter = []int64{r.CreatePromiseAndTask.PromiseRowsAffected, r.CreatePromiseAndTask.TaskRowsAffected}
	case t_aio.AcquireLock:
		alter = []int64{r.AcquireLock.RowsAffected}
	case t_aio.ReleaseLock:
		alter = []int64{r.ReleaseLock.RowsAffected}
	case t_aio.HeartbeatLocks:
		alter = []int64{r.HeartbeatLocks.RowsAffected}
	case t_aio.TimeoutLocks:
		alter = []int64{r.TimeoutLocks.RowsAffected}
	}
	return
}

// checkResult compares a real result with the model's expectation; pre is the model state the command ran on.
func checkResult(e Expect, r *t_aio.Result, state *Model) string {
	if r == nil {
		return "no result"
	}
	if r.Kind != e.Kind {
		return fmt.Sprintf("result kind %s for command %s", r.Kind, e.Kind)
	}
	n, last, recs, alter := resultRows(r)
	if !e.Query {
		want := []int64{e.Rows}
		if e.Kind == t_aio.CreatePromiseAndTask {
			want = []int64{e.Rows, e.Rows2}
		}
		if !reflect.DeepEqual(alter, want) {
			return fmt.Sprintf("%s reports rows %v, the reference model changed %v", e.Kind, alter, want)
		}
		return ""
	}
	keyCol := core.TableKeys[e.Table]
	var got []string
	for _, rec := range recs {
		got = append(got, rec[keyCol])
	}
	if n != int64(len(recs)) {
		return fmt.Sprintf("%s: RowsReturned %d but %d records", e.Kind, n, len(recs))
	}
	switch e.Mode {
	case "exact":
		if !reflect.DeepEqual(got, e.Keys) && !(len(got) == 0 && len(e.Keys) == 0) {
			return fmt.Sprintf("%s returned %v, the reference model says %v (in that order)", e.Kind, got, e.Keys)
		}
	case "subset":
		if len(got) != e.N {
			return fmt.Sprintf("%s returned %d rows %v, want %d of %v", e.Kind, len(got), got, e.N, e.Keys)
		}
		cand := map[string]bool{}
		for _, k := range e.Keys {
			cand[k] = true
		}
		seen := map[string]bool{}
		for _, k := range got {
			if !cand[k] || seen[k] {
				return fmt.Sprintf("%s returned %v, not a duplicate-free subset of %v", e.Kind, got, e.Keys)
			}
			seen[k] = true
		}
	case "perroot":
		var roots []string
		cand := map[string]bool{}
		for _, k := range e.Keys {
			cand[k] = true
		}
		for _, rec := range recs {
			if !cand[rec[keyCol]] {
				return fmt.Sprintf("%s returned task %s which is not init or whose root has an enqueued/claimed task (eligible: %v)", e.Kind, rec[keyCol], e.Keys)
			}
			roots = append(roots, rec["root_promise_id"])
		}
		if !reflect.DeepEqual(roots, e.Roots) && !(len(roots) == 0 && len(e.Roots) == 0) {
			return fmt.Sprintf("%s returned roots %v, want one task for each of %v (in that order)", e.Kind, roots, e.Roots)
		}
	}
	for _, rec := range recs {
		row := state.T[e.Table][rec[keyCol]]
		for _, c := range e.Cols {
			if c == "sort_id" {
				continue // only an order (checked through the result order and the table comparison)
			}
			if norm(row[c]) != rec[c] {
				return fmt.Sprintf("%s: record %s column %s = %q, stored %q", e.Kind, rec[keyCol], c, rec[c], norm(row[c]))
			}
		}
	}
	if e.LastSort && len(recs) > 0 {
		if want := recs[len(recs)-1]["sort_id"]; fmt.Sprint(last) != want {
			return fmt.Sprintf("%s: LastSortId %d, but the last record has sort id %s", e.Kind, last, want)
		}
	}
	return ""
}

func describe(txs []*t_aio.Transaction) string {
	var sb strings.Builder
	for i, tx := range txs {
		fmt.Fprintf(&sb, "tx%d[", i)
		for j, c := range tx.Commands {
			if j > 0 {
				sb.WriteString(" ")
			}
			sb.WriteString(cmdString(c))
		}
		sb.WriteString("] ")
	}
	return sb.String()
}

func cmdString(c *t_aio.Command) string {
	v := reflect.ValueOf(c).Elem()
	for i := 1; i < v.NumField(); i++ {
		if f := v.Field(i); f.Kind() == reflect.Ptr && !f.IsNil() {
			return fmt.Sprintf("%s%s", c.Kind, strings.ReplaceAll(fmt.Sprintf("%+v", f.Elem().Interface()), "\n", " "))
		}
	}
	return c.Kind.String()
}

func newSqlite(path string, h *core.Hooks) (*sqlite.SqliteStore, *sql.DB) {
	m := metrics.New(prometheus.NewRegistry())
	db := core.OpenHooked(path, h)
	st, err := sqlite.NewVerif(db, m, &sqlite.Config{Size: 1, BatchSize: 100, Path: path, TxTimeout: 10 * time.Second})
	if err != nil {
		panic(err)
	}
	return st, db
}

// applyModel runs the batch on a clone of m; returns per-transaction expectations, the state each command saw
// the result against (post-command state for reads equals pre for that command), and whether the batch must fail.
func applyModel(m *Model, txs []*t_aio.Transaction) (next *Model, exps [][]Expect, states [][]*Model, mustFail bool) {
	next = m.Clone()
	for _, tx := range txs {
		next.BeginTx()
		var es []Expect
		var ss []*Model
		for _, c := range tx.Commands {
			e := next.Apply(c)
			es = append(es, e)
			if e.Query {
				ss = append(ss, next.Clone())
			} else {
				ss = append(ss, nil)
			}
			if e.Err {
				mustFail = true
			}
		}
		exps = append(exps, es)
		states = append(states, ss)
	}
	return
}

// TestC16 — store commands are conditional writes; batches ordered, atomic, isolated.
func TestC16(t *testing.T) {
	stats := core.NewStats("C16", "rapid draws sequences of 3..14 batches of 1..4 transactions of 1..4 commands (all 27 kinds, arguments from tiny pools so every guard is hit from every reachable state) applied to the real sqlite store through Process. Oracle: (1) executable in-memory reference model of the five tables: every Result and, through a second connection, every table after every Execute (validity predicates where SQL leaves the order open); (2) the same transactions one per batch on a second store give identical results and tables; (3) a failure injected by a wrapping database/sql driver at EVERY statement position of the batch (and at commit), plus natural errors: every submission fails and the tables equal the pre-batch snapshot; (4) at every statement boundary inside a batch the observer still sees the pre-batch tables. An evaluation = one executed batch (failure positions counted separately). Non-trivial: a batch with >=2 transactions in which >=1 guard rejects and >=1 accepts, or an injected failure after >=1 successful write. Distinct = command kinds + outcomes of the batch.")
	dir := core.Scratch("verif-store-")
	defer os.RemoveAll(dir)
	defer stats.Write()
	n := 0
	thorough := core.Tier() == "thorough"
	rapid.Check(t, func(rt *rapid.T) {
		n++
		g := G{T: rt}
		model := NewModel()
		g.SortIds = func(tbl string) []int64 {
			var out []int64
			for _, r := range model.T[tbl] {
				out = append(out, r.I("sort_id"))
			}
			sort.Slice(out, func(i, j int) bool { return out[i] < out[j] })
			return out
		}
		path := filepath.Join(dir, fmt.Sprintf("a%d.db", n))
		path2 := filepath.Join(dir, fmt.Sprintf("b%d.db", n))
		h := &core.Hooks{FailAt: -1}
		st, db := newSqlite(path, h)
		st2, db2 := newSqlite(path2, &core.Hooks{FailAt: -1})
		obs, _ := sql.Open("sqlite3", path)
		obs2, _ := sql.Open("sqlite3", path2)
		defer func() {
			obs.Close()
			obs2.Close()
			db.Close()
			db2.Close()
			os.Remove(path)
			os.Remove(path2)
		}()
		var history []string
		fail := func(f string, a ...any) {
			msg := fmt.Sprintf(f, a...)
			core.SaveFailure("last", map[string]any{"violation": msg, "history": history})
			rt.Fatalf("VIOLATION C16 %s\nhistory:\n%s", msg, strings.Join(history, "\n"))
		}
		nb := g.uni(12, "nbatches") + 3
		for b := 0; b < nb; b++ {
			txs := g.Batch()
			history = append(history, fmt.Sprintf("batch %d: %s", b, describe(txs)))
			pre := core.Snap(obs)
			if d := diffModel(model, pre); d != "" {
				fail("before batch %d the tables differ from the reference model:\n%s", b, d)
			}
			next, exps, states, mustFail := applyModel(model, txs)
			// (3) a failure at every statement position: rolled back, every submission fails
			if thorough || g.uni(3, "enumfail") == 0 {
				// dry count of statements: run with failure at commit first
				h.Reset(-2)
				cq := st.Process(sqes(txs))
				nstmt := h.N
				stats.Class("failure-injected-at-commit")
				for _, c := range cq {
					if c.Error == nil {
						fail("batch %d: commit failed but a submission was reported successful", b)
					}
				}
				if d := core.Diff(pre, core.Snap(obs)); len(d) > 0 {
					fail("batch %d: failed commit left effects:\n%s", b, core.ChangesString(d))
				}
				for k := 0; k < nstmt; k++ {
					h.Reset(k)
					cq := st.Process(sqes(txs))
					if !h.Failed {
						continue
					}
					stats.Class("failure-injected-at-statement")
					stats.Eval()
					for i, c := range cq {
						if c.Error == nil {
							fail("batch %d: statement %d (%s) failed but submission %d was reported successful", b, k, h.Queries[k], i)
						}
					}
					if d := core.Diff(pre, core.Snap(obs)); len(d) > 0 {
						fail("batch %d: failure at statement %d (%s) left partial effects:\n%s", b, k, h.Queries[k], core.ChangesString(d))
					}
					if k > 0 {
						stats.Nontriv(fmt.Sprintf("fail@%d/%d %s", k, nstmt, kindsOf(txs)), map[string]any{"batch": describe(txs), "failed_statement": k, "of": nstmt})
					}
				}
			}
			// (4) visibility only at commit
			watch := g.uni(3, "watch") == 0
			var leaked string
			h.Reset(-1)
			if watch {
				h.Before = func(k int, q string) {
					if d := core.Diff(pre, core.Snap(obs)); len(d) > 0 && leaked == "" {
						leaked = fmt.Sprintf("before statement %d (%s) another connection already sees:\n%s", k, strings.Join(strings.Fields(q), " "), core.ChangesString(d))
					}
				}
			}
			cqes := st.Process(sqes(txs))
			h.Before = nil
			stats.Eval()
			if leaked != "" {
				fail("batch %d: effects visible before commit: %s", b, leaked)
			}
			post := core.Snap(obs)
			failedAll, failedAny := true, false
			for _, c := range cqes {
				if c.Error == nil {
					failedAll = false
				} else {
					failedAny = true
				}
			}
			if failedAny != failedAll {
				fail("batch %d: some submissions failed and some succeeded", b)
			}
			if mustFail {
				stats.Class("natural-error")
				if !failedAll {
					fail("batch %d: a command had to fail (unique constraint) but the batch succeeded", b)
				}
				if d := core.Diff(pre, post); len(d) > 0 {
					fail("batch %d: failing batch left partial effects:\n%s", b, core.ChangesString(d))
				}
				stats.Nontriv("natural "+kindsOf(txs), map[string]any{"batch": describe(txs), "outcome": "natural error, rolled back"})
				continue
			}
			if failedAll {
				fail("batch %d failed unexpectedly: %v", b, cqes[0].Error)
			}
			// (1) results and tables vs the reference model
			rej, acc := 0, 0
			for i, c := range cqes {
				if len(c.Completion.Store.Results) != len(txs[i].Commands) {
					fail("batch %d tx %d: %d results for %d commands", b, i, len(c.Completion.Store.Results), len(txs[i].Commands))
				}
				for k, r := range c.Completion.Store.Results {
					e := exps[i][k]
					if msg := checkResult(e, r, states[i][k]); msg != "" {
						fail("batch %d tx %d command %d %s: %s", b, i, k, cmdString(txs[i].Commands[k]), msg)
					}
					if !e.Query {
						if e.Rows == 0 {
							rej++
						} else {
							acc++
						}
					}
				}
			}
			if d := diffModel(next, post); d != "" {
				fail("after batch %d the tables differ from the reference model (model -> store):\n%s", b, d)
			}
			adopt(next, post)
			// (2) one transaction per batch on the second store
			for i, tx := range txs {
				c2 := st2.Process(sqes([]*t_aio.Transaction{tx}))
				if c2[0].Error != nil {
					fail("batch %d tx %d fails when executed alone: %v", b, i, c2[0].Error)
				}
				if !reflect.DeepEqual(c2[0].Completion.Store.Results, cqes[i].Completion.Store.Results) {
					fail("batch %d tx %d: results differ between batched and single execution", b, i)
				}
			}
			if d := core.Diff(post, core.Snap(obs2)); len(d) > 0 {
				fail("batch %d: batched and one-by-one execution leave different tables:\n%s", b, core.ChangesString(d))
			}
			model = next
			if len(txs) >= 2 && rej > 0 && acc > 0 {
				stats.Nontriv(kindsOf(txs)+fmt.Sprint(rej, acc), map[string]any{"batch": describe(txs), "guards_rejected": rej, "guards_accepted": acc})
				stats.Class("batch-with-accepting-and-rejecting-guards")
			}
			if watch {
				stats.Class("observed-at-every-statement-boundary")
			}
		}
	})
}

// diffModel compares the model with the store: every column but sort_id must be equal, and sort_id must
// induce the same order (the property treats it only as an order: SQLite/Postgres may skip values).
func diffModel(m *Model, sn core.Snapshot) string {
	if d := core.DiffIgnoring(m.T, sn, "sort_id"); len(d) > 0 {
		return core.ChangesString(d)
	}
	for _, tbl := range []string{"promises", "schedules", "tasks"} {
		order := func(s core.Snapshot) []string {
			ks := s.Keys(tbl)
			sort.SliceStable(ks, func(i, j int) bool { return s[tbl][ks[i]].I("sort_id") < s[tbl][ks[j]].I("sort_id") })
			return ks
		}
		if a, b := order(m.T), order(sn); !reflect.DeepEqual(a, b) {
			return fmt.Sprintf("%s: insertion order by sort_id is %v in the store, %v in the reference model", tbl, b, a)
		}
	}
	return ""
}

// adopt copies the store's actual sort ids into the model (after diffModel agreed on their order).
func adopt(m *Model, sn core.Snapshot) {
	for _, tbl := range []string{"promises", "schedules", "tasks"} {
		for k, r := range sn[tbl] {
			if mr, ok := m.T[tbl][k]; ok {
				mr["sort_id"] = r["sort_id"]
				if v := r.I("sort_id"); v > m.Seq[tbl] {
					m.Seq[tbl] = v
				}
			}
		}
	}
}

func kindsOf(txs []*t_aio.Transaction) string {
	var ks []string
	for _, tx := range txs {
		var s []string
		for _, c := range tx.Commands {
			s = append(s, c.Kind.String())
		}
		ks = append(ks, strings.Join(s, ","))
	}
	sort.Strings(ks)
	return strings.Join(ks, "|")
}
