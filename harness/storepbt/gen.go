package storepbt

import (
	"fmt"
	"math"

	"github.com/resonatehq/resonate/internal/kernel/t_aio"
	"github.com/resonatehq/resonate/pkg/idempotency"
	"github.com/resonatehq/resonate/pkg/message"
	"github.com/resonatehq/resonate/pkg/promise"
	"github.com/resonatehq/resonate/pkg/task"
	"pgregory.net/rapid"
)

// tiny pools: every guard is hit from every reachable state
var (
	pidPool   = []string{"p1", "p2", "pa/b", "q", "zk", "Zk"}           // "zk"/"Zk": ids are compared exactly (no pattern of queryPool tells them apart other than "*")
	cbPool    = []string{"c1", "c2", "t1"}                              // "t1" collides with a task id on purpose (CreateTasks natural error)
	taskPool  = []string{"t1", "t2", "c1", "__invoke:p1", "__invoke:q"} // the last two: a task row may already carry the id a later create-with-task derives
	schedPool = []string{"s1", "s2", "sx"}
	resPool   = []string{"r1", "r2"}
	execPool  = []string{"e1", "e2"}
	procPool  = []string{"w1", "w2"}
	keyPool   = []string{"", "k1", "k2", "<empty>"}
	dataPool  = []string{"", "x", "yy"}
)

type G struct {
	T *rapid.T
	// SortIds returns the sort ids currently stored in a table (cursor positions are drawn from them)
	SortIds func(tbl string) []int64
	// Common: restrict to the domain on which SQLite and Postgres are documented to agree (C17)
	Common bool
}

func (g G) pick(xs []string, l string) string { return xs[g.uni(len(xs), l)] }
func (g G) uni(n int, l string) int {
	if n <= 1 {
		return 0
	}
	x := rapid.Uint32().Draw(g.T, l)
	if x == 0 {
		return 0
	}
	return int(((uint64(x) * 0x9E3779B97F4A7C15) >> 29) % uint64(n))
}

// cursor draws a SortId argument: none, or a stored sort id (+0/+1), so that "sort_id < ?" is decided by
// values that exist (newly inserted rows of the same batch are always beyond it)
func (g G) cursor(tbl string) *int64 {
	if g.uni(3, "sortid") != 0 || g.SortIds == nil {
		return nil
	}
	ids := g.SortIds(tbl)
	if len(ids) == 0 {
		v := int64(0)
		return &v
	}
	v := ids[g.uni(len(ids), "sortidv")] + int64(g.uni(2, "sortidplus"))
	return &v
}

// time: mostly a tiny grid (so that guards such as "timeout <= ?" are hit from both sides), sometimes a
// realistic epoch-millisecond value (which does not fit a 4-byte integer)
func (g G) time(l string) int64 {
	v := int64(g.uni(9, l))
	if v == 8 {
		return 1_700_000_000_000 + int64(g.uni(3, l+".ms"))*1000
	}
	return v * 10
}

// ttl: mostly a few ticks; one in eight is a lease the 32-bit gRPC field cannot carry but the HTTP body can (2^31 ms), the
// largest int64 (clock + ttl never fits) or a value that fits for a small clock and not for an epoch one
func (g G) ttl(l string) int64 {
	if g.uni(8, l+".huge") == 7 {
		return []int64{1 << 31, math.MaxInt64, math.MaxInt64 - 40, math.MaxInt64 - 1_700_000_000_500}[g.uni(4, l+".hugev")]
	}
	return int64(g.uni(3, l)) * 10
}

func (g G) key(l string) *idempotency.Key {
	k := g.pick(keyPool, l)
	if k == "" {
		return nil
	}
	if k == "<empty>" {
		k = "" // present but empty: a key like any other
	}
	kk := idempotency.Key(k)
	return &kk
}
func (g G) headers(l string) map[string]string {
	switch g.uni(3, l) {
	case 0:
		return map[string]string{}
	case 1:
		return map[string]string{"h": "1"}
	}
	return map[string]string{"h": "2", "g": ""}
}
func (g G) tags(l string) map[string]string {
	switch g.uni(4, l) {
	case 0:
		return map[string]string{}
	case 1:
		return map[string]string{"k": "v1"}
	case 2:
		return map[string]string{"k": "v2", "j": "w"}
	}
	return map[string]string{"resonate:invoke": "poll://g"}
}
func (g G) value(l string) promise.Value {
	return promise.Value{Headers: g.headers(l + ".h"), Data: []byte(g.pick(dataPool, l+".d"))}
}
func (g G) mesg(l string) *message.Mesg {
	t := []message.Type{message.Invoke, message.Resume, message.Notify}[g.uni(3, l)]
	return &message.Mesg{Type: t, Root: g.pick(pidPool, l+".root"), Leaf: g.pick(pidPool, l+".leaf")}
}
func (g G) taskStates(l string) []task.State {
	all := []task.State{task.Init, task.Enqueued, task.Claimed, task.Completed, task.Timedout}
	m := g.uni(31, l) + 1
	var out []task.State
	for i, s := range all {
		if m&(1<<i) != 0 {
			out = append(out, s)
		}
	}
	// "arbitrary arguments": a state may be listed twice and in any order (the guard is a set)
	if g.uni(4, l+".dup") == 0 {
		out = append(out, out[g.uni(len(out), l+".dupi")])
	}
	if g.uni(4, l+".rev") == 0 {
		for i, j := 0, len(out)-1; i < j; i, j = i+1, j-1 {
			out[i], out[j] = out[j], out[i]
		}
	}
	return out
}

var queryPool = []string{"*", "p*", "*1", "p1", "*a*", "s*", "nomatch"}

func (g G) createPromise() *t_aio.CreatePromiseCommand {
	return &t_aio.CreatePromiseCommand{Id: g.pick(pidPool, "pid"), Param: g.value("param"), Timeout: g.time("timeout"), IdempotencyKey: g.key("ikc"), Tags: g.tags("tags"), CreatedOn: g.time("created")}
}

func (g G) createTask() *t_aio.CreateTaskCommand {
	c := &t_aio.CreateTaskCommand{Id: g.pick(taskPool, "tid"), Recv: []byte(`"poll://g"`), Mesg: g.mesg("mesg"), Timeout: g.time("ttimeout"), State: task.Init, Ttl: int(g.ttl("ttl")), ExpiresAt: g.time("texp"), CreatedOn: g.time("tcreated")}
	if g.uni(3, "claimed") == 0 {
		p := g.pick(procPool, "proc")
		c.State, c.ProcessId = task.Claimed, &p
	}
	return c
}

var kinds = []t_aio.StoreKind{
	t_aio.ReadPromise, t_aio.ReadPromises, t_aio.SearchPromises, t_aio.CreatePromise, t_aio.UpdatePromise, t_aio.CreateCallback, t_aio.DeleteCallbacks,
	t_aio.ReadSchedule, t_aio.ReadSchedules, t_aio.SearchSchedules, t_aio.CreateSchedule, t_aio.UpdateSchedule, t_aio.DeleteSchedule,
	t_aio.ReadTask, t_aio.ReadEnqueueableTasks, t_aio.ReadTasks, t_aio.CreateTask, t_aio.CreateTasks, t_aio.CompleteTasks, t_aio.UpdateTask, t_aio.HeartbeatTasks, t_aio.CreatePromiseAndTask,
	t_aio.ReadLock, t_aio.AcquireLock, t_aio.ReleaseLock, t_aio.HeartbeatLocks, t_aio.TimeoutLocks,
}

// weights: writes that establish state are more likely than reads
var weights = map[t_aio.StoreKind]int{t_aio.CreatePromise: 4, t_aio.UpdatePromise: 3, t_aio.CreateCallback: 4, t_aio.CreateTask: 3, t_aio.CreateTasks: 3, t_aio.UpdateTask: 3, t_aio.CreateSchedule: 3,
	t_aio.AcquireLock: 3, t_aio.CreatePromiseAndTask: 2, t_aio.CompleteTasks: 2}

func (g G) Command() *t_aio.Command {
	total := 0
	for _, k := range kinds {
		total += max(1, weights[k])
	}
	v := g.uni(total, "kind")
	var kind t_aio.StoreKind
	for _, k := range kinds {
		w := max(1, weights[k])
		if v < w {
			kind = k
			break
		}
		v -= w
	}
	c := &t_aio.Command{Kind: kind}
	switch kind {
	case t_aio.ReadPromise:
		c.ReadPromise = &t_aio.ReadPromiseCommand{Id: g.pick(pidPool, "pid")}
	case t_aio.ReadPromises:
		c.ReadPromises = &t_aio.ReadPromisesCommand{Time: g.time("time"), Limit: g.uni(4, "limit") + 1}
	case t_aio.SearchPromises:
		all := []promise.State{promise.Pending, promise.Resolved, promise.Rejected, promise.Canceled, promise.Timedout}
		m := g.uni(31, "mask") + 1
		states := []promise.State{}
		for i, s := range all {
			if m&(1<<i) != 0 {
				states = append(states, s)
			}
		}
		tags := map[string]string{}
		if g.uni(3, "qtag") == 0 {
			tags["k"] = g.pick([]string{"v1", "v2"}, "qtagv")
		}
		sortId := g.cursor("promises")
		c.SearchPromises = &t_aio.SearchPromisesCommand{Id: g.pick(queryPool, "q"), States: states, Tags: tags, Limit: g.uni(4, "limit") + 1, SortId: sortId}
	case t_aio.CreatePromise:
		c.CreatePromise = g.createPromise()
	case t_aio.UpdatePromise:
		st := []promise.State{promise.Resolved, promise.Rejected, promise.Canceled, promise.Timedout}[g.uni(4, "state")]
		c.UpdatePromise = &t_aio.UpdatePromiseCommand{Id: g.pick(pidPool, "pid"), State: st, Value: g.value("value"), IdempotencyKey: g.key("iku"), CompletedOn: g.time("completed")}
	case t_aio.CreateCallback:
		c.CreateCallback = &t_aio.CreateCallbackCommand{Id: g.pick(cbPool, "cbid"), PromiseId: g.pick(pidPool, "pid"), Recv: []byte(`"poll://g/w"`), Mesg: g.mesg("mesg"), Timeout: g.time("timeout"), CreatedOn: g.time("created")}
	case t_aio.DeleteCallbacks:
		c.DeleteCallbacks = &t_aio.DeleteCallbacksCommand{PromiseId: g.pick(pidPool, "pid")}
	case t_aio.ReadSchedule:
		c.ReadSchedule = &t_aio.ReadScheduleCommand{Id: g.pick(schedPool, "sid")}
	case t_aio.ReadSchedules:
		c.ReadSchedules = &t_aio.ReadSchedulesCommand{NextRunTime: g.time("time"), Limit: g.uni(4, "limit") + 1}
	case t_aio.SearchSchedules:
		tags := map[string]string{}
		if g.uni(3, "qtag") == 0 {
			tags["k"] = g.pick([]string{"v1", "v2"}, "qtagv")
		}
		sortId := g.cursor("schedules")
		c.SearchSchedules = &t_aio.SearchSchedulesCommand{Id: g.pick(queryPool, "q"), Tags: tags, Limit: g.uni(4, "limit") + 1, SortId: sortId}
	case t_aio.CreateSchedule:
		c.CreateSchedule = &t_aio.CreateScheduleCommand{Id: g.pick(schedPool, "sid"), Description: g.pick(dataPool, "desc"), Cron: "* * * * *", Tags: g.tags("stags"), PromiseId: "x.{{.timestamp}}", PromiseTimeout: g.time("ptimeout"),
			PromiseParam: g.value("pparam"), PromiseTags: g.tags("ptags"), NextRunTime: g.time("next"), IdempotencyKey: g.key("ik"), CreatedOn: g.time("created")}
	case t_aio.UpdateSchedule:
		var last *int64
		if g.uni(6, "lastnil") != 0 {
			v := g.time("last")
			last = &v
		}
		c.UpdateSchedule = &t_aio.UpdateScheduleCommand{Id: g.pick(schedPool, "sid"), LastRunTime: last, NextRunTime: g.time("next")}
	case t_aio.DeleteSchedule:
		c.DeleteSchedule = &t_aio.DeleteScheduleCommand{Id: g.pick(schedPool, "sid")}
	case t_aio.ReadTask:
		c.ReadTask = &t_aio.ReadTaskCommand{Id: g.pick(taskPool, "tid")}
	case t_aio.ReadEnqueueableTasks:
		c.ReadEnquableTasks = &t_aio.ReadEnqueueableTasksCommand{Time: g.time("time"), Limit: g.uni(4, "limit") + 1}
	case t_aio.ReadTasks:
		c.ReadTasks = &t_aio.ReadTasksCommand{States: g.taskStates("states"), Time: g.time("time"), Limit: g.uni(4, "limit") + 1}
	case t_aio.CreateTask:
		c.CreateTask = g.createTask()
	case t_aio.CreateTasks:
		c.CreateTasks = &t_aio.CreateTasksCommand{PromiseId: g.pick(pidPool, "pid"), CreatedOn: g.time("created")}
	case t_aio.CompleteTasks:
		c.CompleteTasks = &t_aio.CompleteTasksCommand{RootPromiseId: g.pick(pidPool, "pid"), CompletedOn: g.time("completed")}
	case t_aio.UpdateTask:
		var proc *string
		if g.uni(2, "procnil") == 0 {
			p := g.pick(procPool, "proc")
			proc = &p
		}
		var comp *int64
		if g.uni(3, "compnil") == 0 {
			v := g.time("completed")
			comp = &v
		}
		st := []task.State{task.Init, task.Enqueued, task.Claimed, task.Completed, task.Timedout}[g.uni(5, "tstate")]
		c.UpdateTask = &t_aio.UpdateTaskCommand{Id: g.pick(taskPool, "tid"), ProcessId: proc, State: st, Counter: g.uni(4, "counter"), Attempt: g.uni(3, "attempt"), Ttl: int(g.ttl("ttl")), ExpiresAt: g.time("exp"),
			CompletedOn: comp, CurrentStates: g.taskStates("cur"), CurrentCounter: g.uni(3, "curcounter")}
	case t_aio.HeartbeatTasks:
		c.HeartbeatTasks = &t_aio.HeartbeatTasksCommand{ProcessId: g.pick(procPool, "proc"), Time: g.time("time")}
	case t_aio.CreatePromiseAndTask:
		p := g.createPromise()
		t := g.createTask()
		if g.uni(5, "taskidfrompool") != 0 { // the kernel derives the id; the store takes whatever it is given
			t.Id = "__invoke:" + p.Id
		}
		t.Mesg = &message.Mesg{Type: message.Invoke, Root: p.Id, Leaf: p.Id}
		c.CreatePromiseAndTask = &t_aio.CreatePromiseAndTaskCommand{PromiseCommand: p, TaskCommand: t}
	case t_aio.ReadLock:
		c.ReadLock = &t_aio.ReadLockCommand{ResourceId: g.pick(resPool, "res")}
	case t_aio.AcquireLock:
		c.AcquireLock = &t_aio.AcquireLockCommand{ResourceId: g.pick(resPool, "res"), ProcessId: g.pick(procPool, "proc"), ExecutionId: g.pick(execPool, "exec"), Ttl: g.ttl("ttl"), ExpiresAt: g.time("exp")}
	case t_aio.ReleaseLock:
		c.ReleaseLock = &t_aio.ReleaseLockCommand{ResourceId: g.pick(resPool, "res"), ExecutionId: g.pick(execPool, "exec")}
	case t_aio.HeartbeatLocks:
		c.HeartbeatLocks = &t_aio.HeartbeatLocksCommand{ProcessId: g.pick(procPool, "proc"), Time: g.time("time")}
	case t_aio.TimeoutLocks:
		c.TimeoutLocks = &t_aio.TimeoutLocksCommand{Timeout: g.time("time")}
	default:
		panic(fmt.Sprint("gen: ", kind))
	}
	return c
}

// Batch draws 1..4 transactions of 1..4 commands.
func (g G) Batch() []*t_aio.Transaction {
	n := g.uni(4, "ntx") + 1
	out := make([]*t_aio.Transaction, n)
	for i := range out {
		k := g.uni(4, "ncmd") + 1
		tx := &t_aio.Transaction{}
		for j := 0; j < k; j++ {
			tx.Commands = append(tx.Commands, g.Command())
		}
		out[i] = tx
	}
	return out
}
