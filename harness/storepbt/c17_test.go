package storepbt

import (
	"database/sql"
	"fmt"
	"os"
	"path/filepath"
	"sort"
	"strings"
	"testing"
	"time"

	"github.com/prometheus/client_golang/prometheus"
	"github.com/resonatehq/resonate/internal/app/subsystems/aio/store/postgres"
	"github.com/resonatehq/resonate/internal/kernel/t_aio"
	"github.com/resonatehq/resonate/internal/metrics"
	"github.com/resonatehq/resonate/internal/verif/core"
	"pgregory.net/rapid"
)

func newPostgres(path string, unknown *[]string) (*postgres.PostgresStore, *sql.DB, error) {
	m := metrics.New(prometheus.NewRegistry())
	db := OpenPgsim(path, unknown)
	st, err := postgres.NewVerif(db, m, &postgres.Config{Size: 1, BatchSize: 100, Workers: 1, TxTimeout: 10 * time.Second})
	return st, db, err
}

// decoded compares two snapshots with JSON columns decoded and sort ids reduced to their order.
func decodedDiff(a, b core.Snapshot) string {
	if d := core.DiffIgnoring(a, b, "sort_id"); len(d) > 0 {
		return core.ChangesString(d)
	}
	for _, tbl := range []string{"promises", "schedules", "tasks"} {
		order := func(s core.Snapshot) []string {
			ks := s.Keys(tbl)
			sort.SliceStable(ks, func(i, j int) bool { return s[tbl][ks[i]].I("sort_id") < s[tbl][ks[j]].I("sort_id") })
			return ks
		}
		if x, y := order(a), order(b); fmt.Sprint(x) != fmt.Sprint(y) {
			return fmt.Sprintf("%s: insertion order %v vs %v", tbl, x, y)
		}
	}
	return ""
}

// TestC17 — the Postgres backend decides and writes exactly what the SQLite backend does.
func TestC17(t *testing.T) {
	stats := core.NewStats("C17", "the C16 generator (all 27 command kinds, tiny argument pools, plus realistic epoch-millisecond times) drives the real postgres.go code path — its SQL text, argument order and Go result handling — through `pgsim`, a database/sql driver that translates the Postgres dialect to SQLite by generic token rules (4-byte INTEGER columns get range CHECKs), and the real sqlite store, from the same initial state. Oracle: both backends satisfy the executable reference model (results, validity predicates where SQL leaves order open) and their decoded tables are equal after every batch (sort ids up to order). Non-trivial: a batch in which >=1 guard rejects and >=1 accepts on both backends. Distinct = command kinds + outcomes. An SQL construct pgsim does not know => inconclusive, not a violation.")
	dir := core.Scratch("verif-pg-")
	defer os.RemoveAll(dir)
	defer stats.Write()
	n := 0
	var unknown []string
	rapid.Check(t, func(rt *rapid.T) {
		n++
		g := G{T: rt, Common: true}
		model := NewModel()
		g.SortIds = func(tbl string) []int64 {
			var out []int64
			for _, r := range model.T[tbl] {
				out = append(out, r.I("sort_id"))
			}
			sort.Slice(out, func(i, j int) bool { return out[i] < out[j] })
			return out
		}
		ps, pl := filepath.Join(dir, fmt.Sprintf("pg%d.db", n)), filepath.Join(dir, fmt.Sprintf("lite%d.db", n))
		pg, pgdb, err := newPostgres(ps, &unknown)
		if err != nil {
			rt.Fatalf("INCONCLUSIVE pgsim cannot create the Postgres schema: %v", err)
		}
		lite, litedb := newSqlite(pl, &core.Hooks{FailAt: -1})
		obsPg, _ := sql.Open("sqlite3", ps)
		obsLite, _ := sql.Open("sqlite3", pl)
		defer func() {
			obsPg.Close()
			obsLite.Close()
			pgdb.Close()
			litedb.Close()
			os.Remove(ps)
			os.Remove(pl)
		}()
		var history []string
		fail := func(f string, a ...any) {
			msg := fmt.Sprintf(f, a...)
			core.SaveFailure("last", map[string]any{"violation": msg, "history": history})
			rt.Fatalf("VIOLATION C17 %s\nhistory:\n%s", msg, strings.Join(history, "\n"))
		}
		nb := g.uni(12, "nbatches") + 3
		for b := 0; b < nb; b++ {
			txs := g.Batch()
			history = append(history, fmt.Sprintf("batch %d: %s", b, describe(txs)))
			next, exps, states, mustFail := applyModel(model, txs)
			cl := lite.Process(sqes(txs))
			cp := pg.Process(sqes(txs))
			stats.Eval()
			if len(unknown) > 0 {
				rt.Fatalf("INCONCLUSIVE pgsim does not know SQL construct(s) %v", unknown)
			}
			errL, errP := cl[0].Error != nil, cp[0].Error != nil
			if errL != errP {
				key := ""
				if errP && strings.Contains(cp[0].Error.Error(), "CHECK constraint failed") {
					key = "C17:postgres-4-byte-integer-column"
				}
				if key != "" && core.IsKnown(key) {
					stats.KnownFinding(key)
					fmt.Printf("KNOWN-FINDING: property=C17 %s — %v\n", key, cp[0].Error)
					return
				}
				fail("batch %d: sqlite error=%v, postgres error=%v", b, cl[0].Error, cp[0].Error)
			}
			if errL {
				if !mustFail {
					fail("batch %d fails on both backends but the reference model accepts it: %v / %v", b, cl[0].Error, cp[0].Error)
				}
				stats.Class("natural-error-on-both")
				continue
			}
			rej, acc := 0, 0
			for i := range txs {
				rl, rp := cl[i].Completion.Store.Results, cp[i].Completion.Store.Results
				for k := range txs[i].Commands {
					e := exps[i][k]
					if msg := checkResult(e, rp[k], states[i][k]); msg != "" {
						fail("batch %d tx %d command %d %s on postgres: %s", b, i, k, cmdString(txs[i].Commands[k]), msg)
					}
					if msg := checkResult(e, rl[k], states[i][k]); msg != "" {
						fail("batch %d tx %d command %d %s on sqlite: %s", b, i, k, cmdString(txs[i].Commands[k]), msg)
					}
					if !e.Query {
						if e.Rows == 0 {
							rej++
						} else {
							acc++
						}
					}
				}
			}
			sl, sp := core.Snap(obsLite), core.Snap(obsPg)
			if d := decodedDiff(sl, sp); d != "" {
				fail("after batch %d the backends hold different tables (sqlite -> postgres):\n%s", b, d)
			}
			if d := diffModel(next, sp); d != "" {
				fail("after batch %d postgres differs from the reference model:\n%s", b, d)
			}
			adopt(next, sl)
			model = next
			if rej > 0 && acc > 0 {
				stats.Nontriv(kindsOf(txs)+fmt.Sprint(rej, acc), map[string]any{"batch": describe(txs), "guards_rejected": rej, "guards_accepted": acc})
				stats.Class("batch-with-accepting-and-rejecting-guards")
			}
			for _, tx := range txs {
				for _, c := range tx.Commands {
					stats.Class("cmd:" + c.Kind.String())
				}
			}
		}
	})
	_ = t_aio.ReadPromise
}
