package storepbt

import (
	"context"
	"database/sql"
	"database/sql/driver"
	"encoding/json"
	"fmt"
	"reflect"
	"regexp"
	"strings"

	sqlite3 "github.com/mattn/go-sqlite3"
)

// pgsim: a database/sql driver that accepts the Postgres dialect used by postgres.go and executes it on
// SQLite, by generic token rules (no statement is special-cased by name). Unknown constructs are reported
// through Unknown so that the check can say "inconclusive" instead of guessing.
//
//   $n                       -> ?n
//   x::type                  -> x
//   a @> b                   -> pg_jsonb_contains(a, b)           (registered function, jsonb containment)
//   SELECT DISTINCT ON (c) L FROM R ORDER BY O LIMIT n
//                            -> SELECT L FROM (SELECT *, ROW_NUMBER() OVER (PARTITION BY c ORDER BY O) pg_rn FROM R) WHERE pg_rn = 1 ORDER BY O LIMIT n
//   DDL: SERIAL              -> INTEGER PRIMARY KEY AUTOINCREMENT and the table's PRIMARY KEY(x) -> UNIQUE(x)
//        BIGINT              -> INTEGER (64 bit in SQLite)
//        INTEGER (4 byte)    -> INTEGER CHECK (col BETWEEN -2147483648 AND 2147483647)
//        JSONB, BYTEA        -> BLOB
//   PRAGMA case_sensitive_like = ON (Postgres LIKE is case sensitive)

var (
	reParam    = regexp.MustCompile(`\$(\d+)`)
	reCast     = regexp.MustCompile(`::\s*[a-zA-Z_]+`)
	reContains = regexp.MustCompile(`([A-Za-z_][A-Za-z_0-9.]*)\s*@>\s*(\?\d+)`)
	reDistinct = regexp.MustCompile(`(?is)^\s*SELECT\s+DISTINCT\s+ON\s*\(\s*([A-Za-z_0-9.]+)\s*\)(.*?)\bFROM\b(.*)\bORDER\s+BY\b(.*?)\bLIMIT\b(.*)$`)
	reColInt   = regexp.MustCompile(`(?m)^(\s*)([a-z_]+)(\s+)INTEGER\b([^,\n]*)(,?)\s*$`)
	reUnknown  = regexp.MustCompile(`(?i)\b(ILIKE|RETURNING|LATERAL|ARRAY\[|ANY\s*\(|jsonb_|->>|->|#>|\bNOW\(\)|INTERVAL|FOR\s+UPDATE|SKIP\s+LOCKED|GENERATED|::)`) // applied after translation
	reLineCmt  = regexp.MustCompile(`--[^\n]*`)
)

// Translate rewrites one Postgres statement (or DDL script) to SQLite.
func Translate(q string) (string, []string) {
	var unknown []string
	q = reLineCmt.ReplaceAllString(q, "")
	if strings.Contains(strings.ToUpper(q), "CREATE TABLE") {
		return translateDDL(q)
	}
	q = reParam.ReplaceAllString(q, "?$1")
	q = reCast.ReplaceAllString(q, "")
	q = reContains.ReplaceAllString(q, "pg_jsonb_contains($1, $2)")
	if m := reDistinct.FindStringSubmatch(q); m != nil {
		col, list, from, order, limit := m[1], m[2], m[3], strings.TrimSpace(m[4]), m[5]
		q = fmt.Sprintf("SELECT %s FROM (SELECT *, ROW_NUMBER() OVER (PARTITION BY %s ORDER BY %s) AS pg_rn FROM %s) WHERE pg_rn = 1 ORDER BY %s LIMIT %s", list, col, order, from, order, limit)
	}
	if strings.Contains(strings.ToUpper(q), "DISTINCT ON") {
		unknown = append(unknown, "DISTINCT ON in an untranslatable position")
	}
	for _, m := range reUnknown.FindAllString(q, -1) {
		unknown = append(unknown, m)
	}
	return q, unknown
}

func translateDDL(q string) (string, []string) {
	var out []string
	var unknown []string
	for _, stmt := range strings.Split(q, ";") {
		up := strings.ToUpper(stmt)
		if strings.Contains(up, "CREATE TABLE") {
			serial := strings.Contains(up, " SERIAL")
			// 4-byte integers: range check (before BIGINT becomes INTEGER)
			stmt = reColInt.ReplaceAllStringFunc(stmt, func(line string) string {
				m := reColInt.FindStringSubmatch(line)
				return fmt.Sprintf("%s%s%sINTEGER%s CHECK (%s BETWEEN -2147483648 AND 2147483647)%s", m[1], m[2], m[3], m[4], m[2], m[5])
			})
			stmt = regexp.MustCompile(`\bBIGINT\b`).ReplaceAllString(stmt, "INTEGER")
			stmt = regexp.MustCompile(`\bJSONB\b|\bBYTEA\b`).ReplaceAllString(stmt, "BLOB")
			if serial {
				stmt = regexp.MustCompile(`\bSERIAL\b`).ReplaceAllString(stmt, "INTEGER PRIMARY KEY AUTOINCREMENT")
				stmt = regexp.MustCompile(`(?i)PRIMARY\s+KEY\s*\(`).ReplaceAllStringFunc(stmt, func(s string) string { return "UNIQUE(" })
			}
		}
		stmt = reParam.ReplaceAllString(stmt, "?$1")
		for _, m := range regexp.MustCompile(`(?i)\b(SERIAL|JSONB|BYTEA|BIGSERIAL|TIMESTAMP|UUID|BOOLEAN)\b`).FindAllString(stmt, -1) {
			unknown = append(unknown, "DDL type "+m)
		}
		out = append(out, stmt)
	}
	return strings.Join(out, ";"), unknown
}

// jsonbContains implements a @> b for JSON documents.
func jsonbContains(a, b []byte) (bool, error) {
	if a == nil || b == nil {
		return false, nil
	}
	var x, y any
	if err := json.Unmarshal(a, &x); err != nil {
		return false, err
	}
	if err := json.Unmarshal(b, &y); err != nil {
		return false, err
	}
	return contains(x, y), nil
}

func contains(x, y any) bool {
	switch yy := y.(type) {
	case map[string]any:
		xx, ok := x.(map[string]any)
		if !ok {
			return false
		}
		for k, v := range yy {
			xv, ok := xx[k]
			if !ok || !contains(xv, v) {
				return false
			}
		}
		return true
	case []any:
		xx, ok := x.([]any)
		if !ok {
			return false
		}
		for _, v := range yy {
			found := false
			for _, xv := range xx {
				if contains(xv, v) {
					found = true
				}
			}
			if !found {
				return false
			}
		}
		return true
	}
	return reflect.DeepEqual(x, y)
}

type pgConnector struct {
	dsn     string
	drv     *sqlite3.SQLiteDriver
	Unknown *[]string
}

func (c *pgConnector) Connect(context.Context) (driver.Conn, error) {
	conn, err := c.drv.Open(c.dsn)
	if err != nil {
		return nil, err
	}
	return &pgConn{Conn: conn, unknown: c.Unknown}, nil
}
func (c *pgConnector) Driver() driver.Driver { return c.drv }

// OpenPgsim opens an SQLite file that speaks the Postgres dialect of postgres.go.
func OpenPgsim(path string, unknown *[]string) *sql.DB {
	drv := &sqlite3.SQLiteDriver{ConnectHook: func(conn *sqlite3.SQLiteConn) error {
		if err := conn.RegisterFunc("pg_jsonb_contains", func(a, b []byte) (bool, error) { return jsonbContains(a, b) }, true); err != nil {
			return err
		}
		_, err := conn.Exec("PRAGMA case_sensitive_like = ON", nil)
		return err
	}}
	return sql.OpenDB(&pgConnector{dsn: path, drv: drv, Unknown: unknown})
}

type pgConn struct {
	driver.Conn
	unknown *[]string
}

func (c *pgConn) tr(q string) string {
	t, unk := Translate(q)
	if len(unk) > 0 && c.unknown != nil {
		*c.unknown = append(*c.unknown, unk...)
	}
	return t
}

func (c *pgConn) PrepareContext(ctx context.Context, q string) (driver.Stmt, error) {
	return c.Conn.(driver.ConnPrepareContext).PrepareContext(ctx, c.tr(q))
}
func (c *pgConn) Prepare(q string) (driver.Stmt, error) { return c.Conn.Prepare(c.tr(q)) }
func (c *pgConn) BeginTx(ctx context.Context, opts driver.TxOptions) (driver.Tx, error) {
	return c.Conn.(driver.ConnBeginTx).BeginTx(ctx, opts)
}
func (c *pgConn) ExecContext(ctx context.Context, q string, args []driver.NamedValue) (driver.Result, error) {
	return c.Conn.(driver.ExecerContext).ExecContext(ctx, c.tr(q), args)
}
func (c *pgConn) QueryContext(ctx context.Context, q string, args []driver.NamedValue) (driver.Rows, error) {
	return c.Conn.(driver.QueryerContext).QueryContext(ctx, c.tr(q), args)
}
