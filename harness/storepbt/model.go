// Package storepbt decides C16 (store commands are conditional writes; batches ordered, atomic,
// isolated) against an executable reference model, and C17 (Postgres == SQLite) differentially.
package storepbt

import (
	"encoding/json"
	"fmt"
	"math"
	"regexp"
	"sort"
	"strings"

	"github.com/resonatehq/resonate/internal/kernel/t_aio"
	"github.com/resonatehq/resonate/internal/verif/core"
	"github.com/resonatehq/resonate/pkg/idempotency"
)

// Model is the in-memory reference of the five tables, in the same shape as core.Snap reads them
// (column name -> int64 | string | nil), written from the statement of C16: every command is a
// conditional write on the current state and reports exactly the rows it changed or matched.
type Model struct {
	T   core.Snapshot
	Seq map[string]int64 // autoincrement counters (promises, schedules, tasks)
	// promises a completion of the current transaction found already completed: the tasks of such a promise
	// belong to whoever completed it, a following CompleteTasks in the same transaction is a no-op
	// (C05/C08: a losing completion must not finish the winner's freshly created notification tasks)
	lost map[string]bool
}

// BeginTx starts a new transaction (command group) on the model.
func (m *Model) BeginTx() { m.lost = map[string]bool{} }

func NewModel() *Model {
	m := &Model{T: core.Snapshot{}, Seq: map[string]int64{}}
	for _, t := range core.TableNames {
		m.T[t] = map[string]core.Row{}
	}
	return m
}

func (m *Model) Clone() *Model {
	c := NewModel()
	for t, rows := range m.T {
		for k, r := range rows {
			n := core.Row{}
			for col, v := range r {
				n[col] = v
			}
			c.T[t][k] = n
		}
	}
	for k, v := range m.Seq {
		c.Seq[k] = v
	}
	return c
}

// Expect is what the model predicts for one command.
type Expect struct {
	Kind t_aio.StoreKind
	// alter
	Rows  int64
	Rows2 int64 // task rows of CreatePromiseAndTask
	// query
	Query    bool
	Table    string
	Keys     []string // expected keys in order (Exact) or candidate set (Subset / PerRoot)
	Mode     string   // exact | subset | perroot
	N        int      // number of rows to be returned (subset / perroot)
	Roots    []string // perroot: expected root ids in order
	Cols     []string // columns the records carry
	LastSort bool     // result carries LastSortId
	Err      bool     // the command must fail (and with it the whole batch)
}

func jsonMap(m map[string]string) any {
	if m == nil {
		return "null"
	}
	b, _ := json.Marshal(m)
	return string(b)
}

func bytesVal(b []byte) any {
	if b == nil {
		return nil
	}
	return string(b)
}

func keyVal(k *idempotency.Key) any {
	if k == nil {
		return nil
	}
	return string(*k)
}

func strPtr(p *string) any {
	if p == nil {
		return nil
	}
	return *p
}

func i64Ptr(p *int64) any {
	if p == nil {
		return nil
	}
	return *p
}

func like(pattern, s string) bool {
	// the generator only produces '*' wildcards over lower-case ids without % _ (documented domain)
	parts := strings.Split(pattern, "*")
	for i := range parts {
		parts[i] = regexp.QuoteMeta(parts[i])
	}
	return regexp.MustCompile("(?s)^" + strings.Join(parts, ".*") + "$").MatchString(s)
}

func tagsMatch(row core.Row, col string, want map[string]string) bool {
	have := row.JSONMap(col)
	for k, v := range want {
		if hv, ok := have[k]; !ok || hv != v {
			return false
		}
	}
	return true
}

func (m *Model) sortedKeys(tbl string, less func(a, b core.Row) bool) []string {
	ks := m.T.Keys(tbl)
	sort.SliceStable(ks, func(i, j int) bool { return less(m.T[tbl][ks[i]], m.T[tbl][ks[j]]) })
	return ks
}

var promiseCols = []string{"id", "state", "param_headers", "param_data", "value_headers", "value_data", "timeout", "idempotency_key_for_create", "idempotency_key_for_complete", "tags", "created_on", "completed_on"}

// leaseEnd: clock + ttl over the integers; a sum the column cannot hold is its largest value ("never"), not a wrapped
// number, a value of another type or an error
func leaseEnd(t, ttl int64) int64 {
	if ttl > 0 && t > math.MaxInt64-ttl {
		return math.MaxInt64
	}
	return t + ttl
}

var taskCols = []string{"id", "process_id", "state", "root_promise_id", "recv", "mesg", "timeout", "counter", "attempt", "ttl", "expires_at", "created_on", "completed_on"}

func (m *Model) insertPromise(c *t_aio.CreatePromiseCommand) int64 {
	if _, ok := m.T["promises"][c.Id]; ok {
		return 0
	}
	m.Seq["promises"]++
	m.T["promises"][c.Id] = core.Row{"id": c.Id, "sort_id": m.Seq["promises"], "state": int64(1), "param_headers": jsonMap(c.Param.Headers), "param_data": bytesVal(c.Param.Data),
		"value_headers": nil, "value_data": nil, "timeout": c.Timeout, "idempotency_key_for_create": keyVal(c.IdempotencyKey), "idempotency_key_for_complete": nil,
		"tags": jsonMap(c.Tags), "created_on": c.CreatedOn, "completed_on": nil}
	return 1
}

func (m *Model) insertTask(c *t_aio.CreateTaskCommand) int64 {
	if _, ok := m.T["tasks"][c.Id]; ok {
		return 0
	}
	m.Seq["tasks"]++
	mesg, _ := json.Marshal(c.Mesg)
	m.T["tasks"][c.Id] = core.Row{"id": c.Id, "sort_id": m.Seq["tasks"], "process_id": strPtr(c.ProcessId), "state": int64(c.State), "root_promise_id": c.Mesg.Root, "recv": bytesVal(c.Recv),
		"mesg": string(mesg), "timeout": c.Timeout, "counter": int64(1), "attempt": int64(0), "ttl": int64(c.Ttl), "expires_at": c.ExpiresAt, "created_on": c.CreatedOn, "completed_on": nil}
	return 1
}

// Apply executes cmd on the model and returns the prediction.
func (m *Model) Apply(cmd *t_aio.Command) Expect {
	e := Expect{Kind: cmd.Kind}
	switch cmd.Kind {
	// ---- promises ----
	case t_aio.ReadPromise:
		e.Query, e.Table, e.Mode, e.Cols = true, "promises", "exact", promiseCols
		if _, ok := m.T["promises"][cmd.ReadPromise.Id]; ok {
			e.Keys = []string{cmd.ReadPromise.Id}
		}
	case t_aio.ReadPromises:
		c := cmd.ReadPromises
		e.Query, e.Table, e.Mode, e.Cols, e.LastSort = true, "promises", "subset", append(append([]string{}, promiseCols...), "sort_id"), true
		for _, k := range m.T.Keys("promises") {
			if r := m.T["promises"][k]; r.I("state") == 1 && r.I("timeout") <= c.Time {
				e.Keys = append(e.Keys, k)
			}
		}
		e.N = min(len(e.Keys), max(0, c.Limit))
	case t_aio.SearchPromises:
		c := cmd.SearchPromises
		e.Query, e.Table, e.Mode, e.Cols, e.LastSort = true, "promises", "exact", append(append([]string{}, promiseCols...), "sort_id"), true
		mask := int64(0)
		for _, s := range c.States {
			mask |= int64(s)
		}
		for _, k := range m.sortedKeys("promises", func(a, b core.Row) bool { return a.I("sort_id") > b.I("sort_id") }) {
			r := m.T["promises"][k]
			if (c.SortId == nil || r.I("sort_id") < *c.SortId) && like(c.Id, k) && r.I("state")&mask != 0 && tagsMatch(r, "tags", c.Tags) {
				e.Keys = append(e.Keys, k)
			}
		}
		if len(e.Keys) > c.Limit {
			e.Keys = e.Keys[:c.Limit]
		}
	case t_aio.CreatePromise:
		e.Rows = m.insertPromise(cmd.CreatePromise)
	case t_aio.UpdatePromise:
		c := cmd.UpdatePromise
		if r, ok := m.T["promises"][c.Id]; ok && r.I("state") == 1 {
			r["state"], r["value_headers"], r["value_data"], r["idempotency_key_for_complete"], r["completed_on"] = int64(c.State), jsonMap(c.Value.Headers), bytesVal(c.Value.Data), keyVal(c.IdempotencyKey), c.CompletedOn
			e.Rows = 1
		} else if m.lost != nil {
			m.lost[c.Id] = true
		}
	case t_aio.CreatePromiseAndTask:
		c := cmd.CreatePromiseAndTask
		e.Rows = m.insertPromise(c.PromiseCommand)
		if e.Rows == 1 {
			e.Rows2 = m.insertTask(c.TaskCommand)
		}
	// ---- callbacks ----
	case t_aio.CreateCallback:
		c := cmd.CreateCallback
		p, ok := m.T["promises"][c.PromiseId]
		if _, exists := m.T["callbacks"][c.Id]; ok && p.I("state") == 1 && !exists {
			mesg, _ := json.Marshal(c.Mesg)
			m.T["callbacks"][c.Id] = core.Row{"id": c.Id, "promise_id": c.PromiseId, "root_promise_id": c.Mesg.Root, "recv": bytesVal(c.Recv), "mesg": string(mesg), "timeout": c.Timeout, "created_on": c.CreatedOn}
			e.Rows = 1
		}
	case t_aio.DeleteCallbacks:
		for _, k := range m.T.Keys("callbacks") {
			if m.T["callbacks"][k].S("promise_id") == cmd.DeleteCallbacks.PromiseId {
				delete(m.T["callbacks"], k)
				e.Rows++
			}
		}
	// ---- schedules ----
	case t_aio.ReadSchedule:
		e.Query, e.Table, e.Mode = true, "schedules", "exact"
		e.Cols = []string{"id", "description", "cron", "tags", "promise_id", "promise_timeout", "promise_param_headers", "promise_param_data", "promise_tags", "last_run_time", "next_run_time", "idempotency_key", "created_on"}
		if _, ok := m.T["schedules"][cmd.ReadSchedule.Id]; ok {
			e.Keys = []string{cmd.ReadSchedule.Id}
		}
	case t_aio.ReadSchedules:
		c := cmd.ReadSchedules
		e.Query, e.Table, e.Mode = true, "schedules", "exact"
		e.Cols = []string{"id", "cron", "promise_id", "promise_timeout", "promise_param_headers", "promise_param_data", "promise_tags", "last_run_time", "next_run_time"}
		for _, k := range m.sortedKeys("schedules", func(a, b core.Row) bool {
			if a.I("next_run_time") != b.I("next_run_time") {
				return a.I("next_run_time") < b.I("next_run_time")
			}
			return a.I("sort_id") < b.I("sort_id")
		}) {
			if m.T["schedules"][k].I("next_run_time") <= c.NextRunTime {
				e.Keys = append(e.Keys, k)
			}
		}
		if len(e.Keys) > c.Limit {
			e.Keys = e.Keys[:c.Limit]
		}
	case t_aio.SearchSchedules:
		c := cmd.SearchSchedules
		e.Query, e.Table, e.Mode, e.LastSort = true, "schedules", "exact", true
		e.Cols = []string{"id", "cron", "tags", "last_run_time", "next_run_time", "idempotency_key", "created_on", "sort_id"}
		for _, k := range m.sortedKeys("schedules", func(a, b core.Row) bool { return a.I("sort_id") > b.I("sort_id") }) {
			r := m.T["schedules"][k]
			if (c.SortId == nil || r.I("sort_id") < *c.SortId) && like(c.Id, k) && tagsMatch(r, "tags", c.Tags) {
				e.Keys = append(e.Keys, k)
			}
		}
		if len(e.Keys) > c.Limit {
			e.Keys = e.Keys[:c.Limit]
		}
	case t_aio.CreateSchedule:
		c := cmd.CreateSchedule
		if _, ok := m.T["schedules"][c.Id]; !ok {
			m.Seq["schedules"]++
			m.T["schedules"][c.Id] = core.Row{"id": c.Id, "sort_id": m.Seq["schedules"], "description": c.Description, "cron": c.Cron, "tags": jsonMap(c.Tags), "promise_id": c.PromiseId, "promise_timeout": c.PromiseTimeout,
				"promise_param_headers": jsonMap(c.PromiseParam.Headers), "promise_param_data": bytesVal(c.PromiseParam.Data), "promise_tags": jsonMap(c.PromiseTags), "last_run_time": nil, "next_run_time": c.NextRunTime,
				"idempotency_key": keyVal(c.IdempotencyKey), "created_on": c.CreatedOn}
			e.Rows = 1
		}
	case t_aio.UpdateSchedule:
		c := cmd.UpdateSchedule
		if r, ok := m.T["schedules"][c.Id]; ok && c.LastRunTime != nil && r.I("next_run_time") == *c.LastRunTime {
			r["last_run_time"], r["next_run_time"] = r["next_run_time"], c.NextRunTime
			e.Rows = 1
		}
	case t_aio.DeleteSchedule:
		if _, ok := m.T["schedules"][cmd.DeleteSchedule.Id]; ok {
			delete(m.T["schedules"], cmd.DeleteSchedule.Id)
			e.Rows = 1
		}
	// ---- tasks ----
	case t_aio.ReadTask:
		e.Query, e.Table, e.Mode, e.Cols = true, "tasks", "exact", taskCols
		if _, ok := m.T["tasks"][cmd.ReadTask.Id]; ok {
			e.Keys = []string{cmd.ReadTask.Id}
		}
	case t_aio.ReadTasks:
		c := cmd.ReadTasks
		e.Query, e.Table, e.Mode, e.Cols = true, "tasks", "exact", taskCols
		mask := int64(0)
		for _, s := range c.States {
			mask |= int64(s)
		}
		for _, k := range m.sortedKeys("tasks", func(a, b core.Row) bool {
			if a.S("root_promise_id") != b.S("root_promise_id") {
				return a.S("root_promise_id") < b.S("root_promise_id")
			}
			return a.I("sort_id") < b.I("sort_id")
		}) {
			r := m.T["tasks"][k]
			if r.I("state")&mask != 0 && (r.I("expires_at") <= c.Time || r.I("timeout") <= c.Time) {
				e.Keys = append(e.Keys, k)
			}
		}
		if len(e.Keys) > c.Limit {
			e.Keys = e.Keys[:c.Limit]
		}
	case t_aio.ReadEnqueueableTasks:
		c := cmd.ReadEnquableTasks
		e.Query, e.Table, e.Mode, e.Cols = true, "tasks", "perroot", taskCols
		blocked := map[string]bool{}
		for _, r := range m.T["tasks"] {
			if s := r.I("state"); s == 2 || s == 4 {
				blocked[r.S("root_promise_id")] = true
			}
		}
		roots := map[string]bool{}
		for _, k := range m.T.Keys("tasks") {
			r := m.T["tasks"][k]
			if r.I("state") == 1 && !blocked[r.S("root_promise_id")] {
				e.Keys = append(e.Keys, k)
				roots[r.S("root_promise_id")] = true
			}
		}
		for r := range roots {
			e.Roots = append(e.Roots, r)
		}
		sort.Strings(e.Roots)
		if len(e.Roots) > c.Limit {
			e.Roots = e.Roots[:max(0, c.Limit)]
		}
		e.N = len(e.Roots)
	case t_aio.CreateTask:
		e.Rows = m.insertTask(cmd.CreateTask)
	case t_aio.CreateTasks:
		c := cmd.CreateTasks
		for _, k := range m.T.Keys("callbacks") { // ORDER BY id
			cb := m.T["callbacks"][k]
			if cb.S("promise_id") != c.PromiseId {
				continue
			}
			if _, exists := m.T["tasks"][k]; exists {
				e.Err = true // unique constraint: the statement, and with it the batch, fails
				return e
			}
			m.Seq["tasks"]++
			m.T["tasks"][k] = core.Row{"id": k, "sort_id": m.Seq["tasks"], "process_id": nil, "state": int64(1), "root_promise_id": cb["root_promise_id"], "recv": cb["recv"], "mesg": cb["mesg"], "timeout": cb["timeout"],
				"counter": int64(1), "attempt": int64(0), "ttl": int64(0), "expires_at": int64(0), "created_on": c.CreatedOn, "completed_on": nil}
			e.Rows++
		}
	case t_aio.CompleteTasks:
		c := cmd.CompleteTasks
		if m.lost[c.RootPromiseId] {
			break
		}
		for _, k := range m.T.Keys("tasks") {
			r := m.T["tasks"][k]
			if s := r.I("state"); r.S("root_promise_id") == c.RootPromiseId && (s == 1 || s == 2 || s == 4) {
				r["state"], r["completed_on"] = int64(8), c.CompletedOn
				e.Rows++
			}
		}
	case t_aio.UpdateTask:
		c := cmd.UpdateTask
		mask := int64(0)
		for _, s := range c.CurrentStates {
			mask |= int64(s)
		}
		if r, ok := m.T["tasks"][c.Id]; ok && r.I("state")&mask != 0 && r.I("counter") == int64(c.CurrentCounter) {
			r["process_id"], r["state"], r["counter"], r["attempt"], r["ttl"], r["expires_at"], r["completed_on"] = strPtr(c.ProcessId), int64(c.State), int64(c.Counter), int64(c.Attempt), int64(c.Ttl), c.ExpiresAt, i64Ptr(c.CompletedOn)
			e.Rows = 1
		}
	case t_aio.HeartbeatTasks:
		c := cmd.HeartbeatTasks
		for _, k := range m.T.Keys("tasks") {
			r := m.T["tasks"][k]
			if r["process_id"] != nil && r.S("process_id") == c.ProcessId && r.I("state") == 4 {
				r["expires_at"] = leaseEnd(c.Time, r.I("ttl"))
				e.Rows++
			}
		}
	// ---- locks ----
	case t_aio.ReadLock:
		e.Query, e.Table, e.Mode, e.Cols = true, "locks", "exact", []string{"resource_id", "process_id", "execution_id", "ttl", "expires_at"}
		if _, ok := m.T["locks"][cmd.ReadLock.ResourceId]; ok {
			e.Keys = []string{cmd.ReadLock.ResourceId}
		}
	case t_aio.AcquireLock:
		c := cmd.AcquireLock
		if r, ok := m.T["locks"][c.ResourceId]; !ok {
			m.T["locks"][c.ResourceId] = core.Row{"resource_id": c.ResourceId, "execution_id": c.ExecutionId, "process_id": c.ProcessId, "ttl": c.Ttl, "expires_at": c.ExpiresAt}
			e.Rows = 1
		} else if r.S("execution_id") == c.ExecutionId {
			r["process_id"], r["ttl"], r["expires_at"] = c.ProcessId, c.Ttl, c.ExpiresAt
			e.Rows = 1
		}
	case t_aio.ReleaseLock:
		c := cmd.ReleaseLock
		if r, ok := m.T["locks"][c.ResourceId]; ok && r.S("execution_id") == c.ExecutionId {
			delete(m.T["locks"], c.ResourceId)
			e.Rows = 1
		}
	case t_aio.HeartbeatLocks:
		c := cmd.HeartbeatLocks
		for _, k := range m.T.Keys("locks") {
			if r := m.T["locks"][k]; r.S("process_id") == c.ProcessId {
				r["expires_at"] = leaseEnd(c.Time, r.I("ttl"))
				e.Rows++
			}
		}
	case t_aio.TimeoutLocks:
		for _, k := range m.T.Keys("locks") {
			if m.T["locks"][k].I("expires_at") <= cmd.TimeoutLocks.Timeout {
				delete(m.T["locks"], k)
				e.Rows++
			}
		}
	default:
		panic(fmt.Sprintf("model: unknown command %s", cmd.Kind))
	}
	return e
}
