package front

import (
	"encoding/json"
	"errors"
	"fmt"
	"net/url"
	"reflect"
	"sort"
	"strings"
	"testing"
	"time"

	grpcApi "github.com/resonatehq/resonate/internal/app/subsystems/api/grpc"
	"github.com/resonatehq/resonate/internal/app/subsystems/api/grpc/pb"
	"github.com/resonatehq/resonate/internal/kernel/t_api"
	"github.com/resonatehq/resonate/internal/verif/core"
	"google.golang.org/grpc/codes"
	"google.golang.org/grpc/status"
	"pgregory.net/rapid"
)

// wantCode is the documented gRPC code class of a kernel status.
func wantCode(st int) codes.Code {
	switch st / 100 {
	case 200, 201, 204:
		return codes.OK
	case 400:
		return codes.InvalidArgument
	case 403:
		return codes.PermissionDenied
	case 404:
		return codes.NotFound
	case 409:
		return codes.AlreadyExists
	case 500:
		return codes.Internal
	case 503:
		return codes.Unavailable
	}
	return codes.Unknown
}

type finding struct{ key, msg string }

// matrix enumerates every endpoint x every status x shape x delivery and returns the violations.
func matrix(f *Fronts, stats *core.Stats) []finding {
	var out []finding
	add := func(key, format string, a ...any) { out = append(out, finding{key, fmt.Sprintf(format, a...)}) }
	statuses := SortedStatuses()
	if len(statuses) < 20 {
		panic(fmt.Sprintf("status table not found: %v", statuses))
	}
	for _, ep := range Endpoints() {
		okSet := map[t_api.StatusCode]bool{}
		for _, s := range ep.OK {
			okSet[s] = true
		}
		type delivery struct {
			name string
			st   int
			res  *t_api.Response
			err  error
		}
		var ds []delivery
		for _, st := range statuses {
			code := t_api.StatusCode(st)
			if code.IsSuccessful() {
				if okSet[code] {
					for _, sh := range Shapes(ep.Kind, code) {
						ds = append(ds, delivery{fmt.Sprintf("%d/%s", st, sh.Name), st, sh.Res, nil})
					}
				}
				continue
			}
			ds = append(ds, delivery{fmt.Sprintf("%d/as-response-status", st), st, FailureResponse(ep.Kind, code), nil})
			ds = append(ds, delivery{fmt.Sprintf("%d/as-error", st), st, nil, t_api.NewError(code, errors.New("cause"))})
			ds = append(ds, delivery{fmt.Sprintf("%d/as-error-nil-cause", st), st, nil, t_api.NewError(code, nil)})
		}
		for _, d := range ds {
			d := d
			f.Stub.Res = func(*t_api.Request) (*t_api.Response, error) { return d.res, d.err }
			stats.Eval()
			sig := fmt.Sprintf("%s|%s", ep.Name, d.name)
			nontrivial := !t_api.StatusCode(d.st).IsSuccessful()
			// ---- HTTP ----
			hr := f.DoHTTP(ep.Method, ep.Path, ep.Body, ep.Headers)
			switch {
			case hr.Panic != nil:
				add("", "HTTP %s %s with kernel outcome %s: handler panicked (reply dropped): %v", ep.Method, ep.Path, d.name, hr.Panic)
			case hr.Requests != 1:
				add("", "HTTP %s %s: %d kernel requests for one call (request did not pass validation? body %s)", ep.Method, ep.Path, hr.Requests, hr.Body)
			case hr.Code != d.st/100:
				add("", "HTTP %s %s with kernel outcome %s: status %d, want %d", ep.Method, ep.Path, d.name, hr.Code, d.st/100)
			default:
				if !t_api.StatusCode(d.st).IsSuccessful() {
					if eb, err := ParseErrorBody(hr.Body); err != nil {
						add("", "HTTP %s %s with kernel outcome %s: error body is not well formed: %v", ep.Method, ep.Path, d.name, err)
					} else if eb.Error.Code != d.st {
						add("", "HTTP %s %s with kernel outcome %s: error body carries code %d", ep.Method, ep.Path, d.name, eb.Error.Code)
					}
				} else if len(hr.Body) > 0 {
					var v any
					if err := json.Unmarshal(hr.Body, &v); err != nil {
						add("", "HTTP %s %s with kernel outcome %s: body is not JSON: %s", ep.Method, ep.Path, d.name, hr.Body)
					}
				}
			}
			// ---- gRPC ----
			if ep.Grpc != nil {
				gr := f.DoGRPC(ep.Grpc)
				switch {
				case gr.Panic != nil:
					add("", "gRPC %s with kernel outcome %s: handler panicked (reply dropped): %v", ep.Name, d.name, gr.Panic)
				case t_api.StatusCode(d.st).IsSuccessful():
					if gr.Err != nil || gr.Reply == nil || reflect.ValueOf(gr.Reply).IsNil() {
						add("", "gRPC %s with kernel outcome %s: want an OK message, got reply=%v err=%v", ep.Name, d.name, gr.Reply, gr.Err)
					} else if ep.Flag != nil {
						name, got, _ := ep.Flag(gr.Reply)
						if want := ep.FlagWant(t_api.StatusCode(d.st)); got != want {
							key := ""
							if name == "released" {
								key = "C15:released-flag"
							}
							add(key, "gRPC %s with kernel status %d: flag %s = %v, want %v", ep.Name, d.st, name, got, want)
						}
					}
				default:
					if gr.Err == nil {
						add("", "gRPC %s with kernel outcome %s: want an error, got message %v", ep.Name, d.name, gr.Reply)
					} else if s, ok := status.FromError(gr.Err); !ok || s.Code() != wantCode(d.st) {
						add("", "gRPC %s with kernel outcome %s: code %v, want %v", ep.Name, d.name, status.Code(gr.Err), wantCode(d.st))
					}
				}
			}
			if nontrivial {
				stats.Nontriv(sig, map[string]any{"endpoint": ep.Name, "kernel_outcome": d.name, "http_status": hr.Code, "http_body": truncate(string(hr.Body), 160)})
			}
			stats.Class(fmt.Sprintf("status-class-%dxx", d.st/10000))
		}
	}
	return out
}

func truncate(s string, n int) string {
	if len(s) > n {
		return s[:n] + "…"
	}
	return s
}

// ---------------------------------------------------------------------------
// generated part: equivalent HTTP and gRPC requests become the same kernel request

func normReq(r *t_api.Request) string {
	b, _ := json.Marshal(r)
	var v map[string]any
	_ = json.Unmarshal(b, &v)
	delete(v, "Tags")
	// receivers are compared as JSON values
	for _, k := range []string{"CreateCallback", "CreateSubscription"} {
		if m, ok := v[k].(map[string]any); ok && m != nil {
			if s, ok := m["recv"]; ok {
				m["recv"] = s
			}
		}
	}
	markEmptyKeys(v)
	pr := pruneAny(v)
	b, _ = json.Marshal(pr)
	return string(b)
}

// markEmptyKeys: an idempotency key that is present but empty is not the same request as one without a key (an absent
// key matches nothing, an empty one matches an empty one), so it must survive the pruning of zero values below
func markEmptyKeys(v any) {
	switch x := v.(type) {
	case map[string]any:
		for k, e := range x {
			if s, ok := e.(string); ok && s == "" && strings.Contains(strings.ToLower(k), "idemp") {
				x[k] = "<present but empty>"
				continue
			}
			markEmptyKeys(e)
		}
	case []any:
		for _, e := range x {
			markEmptyKeys(e)
		}
	}
}

func pruneAny(v any) any {
	switch x := v.(type) {
	case map[string]any:
		out := map[string]any{}
		for k, e := range x {
			if p := pruneAny(e); p != nil {
				out[k] = p
			}
		}
		if len(out) == 0 {
			return nil
		}
		return out
	case []any:
		if len(x) == 0 {
			return nil
		}
		return x
	case string:
		if x == "" {
			return nil
		}
	case bool:
		if !x {
			return nil
		}
	case float64:
		if x == 0 {
			return nil
		}
	}
	return v
}

var idPool = []string{"foo", "a/b", "x y", "ü.1", "p:q", "a%2Fb", "UPPER", "/lead", "//two", "trail/", "a//b", "a+b", "+", "a/b+c d", "./dot", "a/../b"}
var dataPool = []string{"", "x", "{\"k\":1}", "\x00\x01", "héllo"}

func genStr(t *rapid.T, pool []string, label string) string {
	return rapid.SampledFrom(pool).Draw(t, label)
}

func genMap(t *rapid.T, label string) map[string]string {
	n := rapid.IntRange(0, 2).Draw(t, label+".n")
	if n == 0 {
		return nil
	}
	m := map[string]string{}
	for i := 0; i < n; i++ {
		m[rapid.SampledFrom([]string{"a", "b.c", "resonate:invoke", "k k"}).Draw(t, label+".k")] = rapid.SampledFrom([]string{"", "v", "poll://g/w", "{\"type\":\"poll\"}"}).Draw(t, label+".v")
	}
	return m
}

type pair struct {
	name         string
	method, path string
	body         any
	headers      map[string]string
	grpc         func(s grpcApi.VerifServer) (any, error)
}

// freq: a name "...@<duration>" means the HTTP front end is configured with that task frequency (the link forms of the
// task endpoints use it)
func (p pair) freq() time.Duration {
	if _, d, ok := strings.Cut(p.name, "@"); ok {
		if v, err := time.ParseDuration(d); err == nil {
			return v
		}
	}
	return 0
}

// the link forms GET /tasks/{claim,complete,heartbeat}/:id/:counter carry no body: the process id is api.TaskProcessId(id,
// counter) = "id/counter" and the lease is the configured task frequency ("default task frequency", in milliseconds) —
// the equivalent gRPC request spells both out
var taskFrequencies = []time.Duration{time.Minute, 5 * time.Second, 1500 * time.Millisecond, 500 * time.Millisecond, 250 * time.Millisecond, time.Millisecond, 90 * time.Minute}

var frontsByFreq = map[time.Duration]*Fronts{}

func frontsFor(freq time.Duration) *Fronts {
	if f, ok := frontsByFreq[freq]; ok {
		return f
	}
	f := NewFrontsWith(freq)
	frontsByFreq[freq] = f
	return f
}

func pbValue(h map[string]string, d string) *pb.Value {
	if h == nil && d == "" {
		return nil
	}
	return &pb.Value{Headers: h, Data: []byte(d)}
}

func jsonValue(h map[string]string, d string) map[string]any {
	m := map[string]any{}
	if h != nil {
		m["headers"] = h
	}
	if d != "" {
		m["data"] = []byte(d)
	}
	return m
}

func genPair(t *rapid.T) pair {
	id := genStr(t, idPool, "id")
	ikey := rapid.SampledFrom([]string{"", "k1", "k 2"}).Draw(t, "ikey")
	strict := rapid.Bool().Draw(t, "strict")
	reqId := rapid.SampledFrom([]string{"", "rid-1"}).Draw(t, "reqid")
	hdr := map[string]string{}
	if ikey != "" {
		hdr["idempotency-key"] = ikey
	}
	if strict {
		hdr["strict"] = "true"
	}
	if reqId != "" {
		hdr["request-id"] = reqId
	}
	// a client may leave the slashes of an id in the path or escape them: both address the same id
	keepSlashEscapes := rapid.Bool().Draw(t, "escapeSlashes")
	esc := func(s string) string {
		if keepSlashEscapes {
			return url.PathEscape(s)
		}
		return strings.ReplaceAll(url.PathEscape(s), "%2F", "/")
	}
	h, d := genMap(t, "hdrs"), genStr(t, dataPool, "data")
	tags := genMap(t, "tags")
	timeout := rapid.Int64Range(0, 1<<40).Draw(t, "timeout")
	switch rapid.IntRange(0, 12).Draw(t, "op") {
	case 0:
		return pair{"ReadPromise", "GET", "/promises/" + esc(id), nil, hdr, func(s grpcApi.VerifServer) (any, error) {
			return s.ReadPromise(ctx, &pb.ReadPromiseRequest{Id: id, RequestId: reqId})
		}}
	case 1:
		body := map[string]any{"id": id, "timeout": timeout, "param": jsonValue(h, d)}
		if tags != nil {
			body["tags"] = tags
		}
		return pair{"CreatePromise", "POST", "/promises", body, hdr, func(s grpcApi.VerifServer) (any, error) {
			return s.CreatePromise(ctx, &pb.CreatePromiseRequest{Id: id, IdempotencyKey: ikey, Strict: strict, Param: pbValue(h, d), Timeout: timeout, Tags: tags, RequestId: reqId})
		}}
	case 2:
		ttl := rapid.IntRange(0, 100000).Draw(t, "ttl")
		body := map[string]any{"promise": map[string]any{"id": id, "timeout": timeout, "param": jsonValue(h, d), "tags": tags}, "task": map[string]any{"processId": "w1", "ttl": ttl}}
		return pair{"CreatePromiseAndTask", "POST", "/promises/task", body, hdr, func(s grpcApi.VerifServer) (any, error) {
			return s.CreatePromiseAndTask(ctx, &pb.CreatePromiseAndTaskRequest{Promise: &pb.CreatePromiseRequest{Id: id, IdempotencyKey: ikey, Strict: strict, Param: pbValue(h, d), Timeout: timeout, Tags: tags, RequestId: reqId},
				Task: &pb.CreatePromiseTaskRequest{ProcessId: "w1", Ttl: int32(ttl)}})
		}}
	case 3, 4, 5:
		st := []string{"RESOLVED", "REJECTED", "REJECTED_CANCELED"}[rapid.IntRange(0, 2).Draw(t, "state")]
		body := map[string]any{"state": st, "value": jsonValue(h, d)}
		return pair{"CompletePromise:" + st, "PATCH", "/promises/" + esc(id), body, hdr, func(s grpcApi.VerifServer) (any, error) {
			switch st {
			case "RESOLVED":
				return s.ResolvePromise(ctx, &pb.ResolvePromiseRequest{Id: id, IdempotencyKey: ikey, Strict: strict, Value: pbValue(h, d), RequestId: reqId})
			case "REJECTED":
				return s.RejectPromise(ctx, &pb.RejectPromiseRequest{Id: id, IdempotencyKey: ikey, Strict: strict, Value: pbValue(h, d), RequestId: reqId})
			}
			return s.CancelPromise(ctx, &pb.CancelPromiseRequest{Id: id, IdempotencyKey: ikey, Strict: strict, Value: pbValue(h, d), RequestId: reqId})
		}}
	case 6, 7:
		root := genStr(t, idPool, "root")
		logical := rapid.Bool().Draw(t, "logical")
		var recvJSON any
		var recvPb *pb.Recv
		if logical {
			l := rapid.SampledFrom([]string{"poll://g/w", "default", "http://h/p?q=1", ""}).Draw(t, "recv")
			recvJSON, recvPb = l, &pb.Recv{Recv: &pb.Recv_Logical{Logical: l}}
		} else {
			typ := rapid.SampledFrom([]string{"poll", "http", ""}).Draw(t, "rtype")
			data := rapid.SampledFrom([]string{`{"group":"g","id":"w"}`, `{"url":"http://x"}`, `{}`}).Draw(t, "rdata")
			recvJSON, recvPb = map[string]any{"type": typ, "data": json.RawMessage(data)}, &pb.Recv{Recv: &pb.Recv_Physical{Physical: &pb.PhysicalRecv{Type: typ, Data: []byte(data)}}}
		}
		delete(hdr, "idempotency-key")
		delete(hdr, "strict")
		if rapid.Bool().Draw(t, "sub") {
			return pair{"CreateSubscription", "POST", "/subscriptions", map[string]any{"Id": "s1", "promiseId": id, "timeout": timeout, "recv": recvJSON}, hdr, func(s grpcApi.VerifServer) (any, error) {
				return s.CreateSubscription(ctx, &pb.CreateSubscriptionRequest{Id: "s1", PromiseId: id, Timeout: timeout, Recv: recvPb, RequestId: reqId})
			}}
		}
		return pair{"CreateCallback", "POST", "/callbacks", map[string]any{"Id": "cb1", "promiseId": id, "rootPromiseId": root, "timeout": timeout, "recv": recvJSON}, hdr, func(s grpcApi.VerifServer) (any, error) {
			return s.CreateCallback(ctx, &pb.CreateCallbackRequest{Id: "cb1", PromiseId: id, RootPromiseId: root, Timeout: timeout, Recv: recvPb, RequestId: reqId})
		}}
	case 8:
		delete(hdr, "strict")
		cron := rapid.SampledFrom([]string{"* * * * *", "*/5 * * * * *", "@every 1m"}).Draw(t, "cron")
		ptags := genMap(t, "ptags")
		body := map[string]any{"id": id, "desc": genStr(t, dataPool[:2], "desc"), "cron": cron, "promiseId": id + ".{{.timestamp}}", "promiseTimeout": timeout, "promiseParam": jsonValue(h, d)}
		if tags != nil {
			body["tags"] = tags
		}
		if ptags != nil {
			body["promiseTags"] = ptags
		}
		return pair{"CreateSchedule", "POST", "/schedules", body, hdr, func(s grpcApi.VerifServer) (any, error) {
			return s.CreateSchedule(ctx, &pb.CreateScheduleRequest{Id: id, Description: body["desc"].(string), Cron: cron, Tags: tags, PromiseId: id + ".{{.timestamp}}", PromiseTimeout: timeout, PromiseParam: pbValue(h, d), PromiseTags: ptags, IdempotencyKey: ikey, RequestId: reqId})
		}}
	case 9:
		delete(hdr, "idempotency-key")
		delete(hdr, "strict")
		del := rapid.Bool().Draw(t, "delete")
		if del {
			return pair{"DeleteSchedule", "DELETE", "/schedules/" + esc(id), nil, hdr, func(s grpcApi.VerifServer) (any, error) {
				return s.DeleteSchedule(ctx, &pb.DeleteScheduleRequest{Id: id, RequestId: reqId})
			}}
		}
		return pair{"ReadSchedule", "GET", "/schedules/" + esc(id), nil, hdr, func(s grpcApi.VerifServer) (any, error) {
			return s.ReadSchedule(ctx, &pb.ReadScheduleRequest{Id: id, RequestId: reqId})
		}}
	case 10:
		delete(hdr, "idempotency-key")
		delete(hdr, "strict")
		ttl := rapid.Int64Range(0, 1<<40).Draw(t, "lttl")
		switch rapid.IntRange(0, 2).Draw(t, "lockop") {
		case 0:
			return pair{"AcquireLock", "POST", "/locks/acquire", map[string]any{"resourceId": id, "executionId": "e x", "processId": "p", "ttl": ttl}, hdr, func(s grpcApi.VerifServer) (any, error) {
				return s.AcquireLock(ctx, &pb.AcquireLockRequest{ResourceId: id, ExecutionId: "e x", ProcessId: "p", Ttl: ttl, RequestId: reqId})
			}}
		case 1:
			return pair{"ReleaseLock", "POST", "/locks/release", map[string]any{"resourceId": id, "executionId": "e x"}, hdr, func(s grpcApi.VerifServer) (any, error) {
				return s.ReleaseLock(ctx, &pb.ReleaseLockRequest{ResourceId: id, ExecutionId: "e x", RequestId: reqId})
			}}
		}
		return pair{"HeartbeatLocks", "POST", "/locks/heartbeat", map[string]any{"processId": id}, hdr, func(s grpcApi.VerifServer) (any, error) {
			return s.HeartbeatLocks(ctx, &pb.HeartbeatLocksRequest{ProcessId: id, RequestId: reqId})
		}}
	case 11:
		delete(hdr, "idempotency-key")
		delete(hdr, "strict")
		counter := rapid.IntRange(1, 1000).Draw(t, "counter")
		ttl := rapid.IntRange(0, 1<<30).Draw(t, "tttl")
		switch rapid.IntRange(0, 5).Draw(t, "taskop") {
		case 3, 4, 5:
			tid := rapid.SampledFrom([]string{"t1", "task.2", "__invoke:p1", "a-b_c"}).Draw(t, "linkid")
			freq := rapid.SampledFrom(taskFrequencies).Draw(t, "taskfrequency")
			pidOf := fmt.Sprintf("%s/%d", tid, counter)
			switch rapid.IntRange(0, 2).Draw(t, "linkop") {
			case 0:
				return pair{"ClaimTask:link@" + freq.String(), "GET", fmt.Sprintf("/tasks/claim/%s/%d", tid, counter), nil, hdr, func(s grpcApi.VerifServer) (any, error) {
					return s.ClaimTask(ctx, &pb.ClaimTaskRequest{Id: tid, Counter: int32(counter), ProcessId: pidOf, Ttl: int32(freq.Milliseconds()), RequestId: reqId})
				}}
			case 1:
				return pair{"CompleteTask:link@" + freq.String(), "GET", fmt.Sprintf("/tasks/complete/%s/%d", tid, counter), nil, hdr, func(s grpcApi.VerifServer) (any, error) {
					return s.CompleteTask(ctx, &pb.CompleteTaskRequest{Id: tid, Counter: int32(counter), RequestId: reqId})
				}}
			}
			return pair{"HeartbeatTasks:link@" + freq.String(), "GET", fmt.Sprintf("/tasks/heartbeat/%s/%d", tid, counter), nil, hdr, func(s grpcApi.VerifServer) (any, error) {
				return s.HeartbeatTasks(ctx, &pb.HeartbeatTasksRequest{ProcessId: pidOf, RequestId: reqId})
			}}
		case 0:
			return pair{"ClaimTask", "POST", "/tasks/claim", map[string]any{"id": id, "counter": counter, "processId": "w 1", "ttl": ttl}, hdr, func(s grpcApi.VerifServer) (any, error) {
				return s.ClaimTask(ctx, &pb.ClaimTaskRequest{Id: id, Counter: int32(counter), ProcessId: "w 1", Ttl: int32(ttl), RequestId: reqId})
			}}
		case 1:
			return pair{"CompleteTask", "POST", "/tasks/complete", map[string]any{"id": id, "counter": counter}, hdr, func(s grpcApi.VerifServer) (any, error) {
				return s.CompleteTask(ctx, &pb.CompleteTaskRequest{Id: id, Counter: int32(counter), RequestId: reqId})
			}}
		}
		return pair{"HeartbeatTasks", "POST", "/tasks/heartbeat", map[string]any{"processId": id}, hdr, func(s grpcApi.VerifServer) (any, error) {
			return s.HeartbeatTasks(ctx, &pb.HeartbeatTasksRequest{ProcessId: id, RequestId: reqId})
		}}
	default:
		delete(hdr, "idempotency-key")
		delete(hdr, "strict")
		state := rapid.SampledFrom([]string{"", "pending", "resolved", "rejected"}).Draw(t, "sstate")
		limit := rapid.IntRange(0, 100).Draw(t, "limit")
		q := url.Values{}
		q.Set("id", id)
		if state != "" {
			q.Set("state", state)
		}
		if limit != 0 {
			q.Set("limit", fmt.Sprint(limit))
		}
		ks := []string{}
		for k := range tags {
			ks = append(ks, k)
		}
		sort.Strings(ks)
		for _, k := range ks {
			q.Set("tags["+k+"]", tags[k])
		}
		pbState := map[string]pb.SearchState{"": pb.SearchState_SEARCH_ALL, "pending": pb.SearchState_SEARCH_PENDING, "resolved": pb.SearchState_SEARCH_RESOLVED, "rejected": pb.SearchState_SEARCH_REJECTED}[state]
		if rapid.Bool().Draw(t, "searchsched") {
			q.Del("state")
			return pair{"SearchSchedules", "GET", "/schedules?" + q.Encode(), nil, hdr, func(s grpcApi.VerifServer) (any, error) {
				return s.SearchSchedules(ctx, &pb.SearchSchedulesRequest{Id: id, Tags: tags, Limit: int32(limit), RequestId: reqId})
			}}
		}
		return pair{"SearchPromises", "GET", "/promises?" + q.Encode(), nil, hdr, func(s grpcApi.VerifServer) (any, error) {
			return s.SearchPromises(ctx, &pb.SearchPromisesRequest{Id: id, State: pbState, Tags: tags, Limit: int32(limit), RequestId: reqId})
		}}
	}
}

// TestC15 — HTTP and gRPC front ends render every kernel outcome faithfully and identically.
func TestC15(t *testing.T) {
	stats := core.NewStats("C15", "part 1 (exhaustive, every run): every endpoint of both protocols x every StatusCode constant parsed from t_api/status.go x every response shape the operation's coroutine can return (success statuses) resp. delivery as response status and as t_api.Error (other statuses), through the real gin handler (ServeHTTP) and the real gRPC service methods with a stub kernel. Oracle: no panic, HTTP code = status/100, error body parses and carries the status, gRPC OK message or the documented code class, outcome flags agree with the status. part 2 (generated): well-formed abstract requests rendered to HTTP and to gRPC must reach the kernel as the same t_api.Request (nil == empty, request tags apart). Non-trivial: a non-2xx kernel outcome (part 1) or a request with >=1 optional field set (part 2). Distinct = (endpoint, outcome) resp. request rendering.")
	defer stats.Write()
	f := NewFronts()
	defer f.Close()
	known := core.KnownKeys()
	fs := matrix(f, stats)
	stats.Extra["exhaustive"] = true
	stats.Extra["matrix_combinations"] = stats.Evaluations
	for _, x := range fs {
		if x.key != "" && known[x.key] {
			stats.KnownFinding(x.key)
			fmt.Printf("KNOWN-FINDING: property=C15 %s — %s\n", x.key, x.msg)
			continue
		}
		core.SaveFailure("last", map[string]any{"violation": x.msg, "all": fs})
		t.Fatalf("VIOLATION C15 %s", x.msg)
	}
	// ---- part 2 ----
	equivalence(t, f, stats, "C15", nil)
}

// equivalence is part 2 of C15, also run (restricted to their operations) as a tier of the properties whose
// requests travel through the front ends: a well-formed abstract request rendered to HTTP and to gRPC must reach the
// kernel as the same t_api.Request.
func equivalence(t *testing.T, f *Fronts, stats *core.Stats, prop string, ops map[string]bool) {
	rapid.Check(t, func(rt *rapid.T) {
		p := genPair(rt)
		for tries := 0; ops != nil && !ops[strings.SplitN(p.name, ":", 2)[0]] && tries < 200; tries++ {
			p = genPair(rt)
		}
		if ops != nil && !ops[strings.SplitN(p.name, ":", 2)[0]] {
			rt.Skip("no operation of this property drawn")
		}
		stats.Eval()
		f := f
		if p.freq() != 0 {
			f = frontsFor(p.freq())
		}
		var captured []*t_api.Request
		f.Stub.Res = func(r *t_api.Request) (*t_api.Response, error) {
			captured = append(captured, r)
			return nil, t_api.NewError(t_api.StatusInternalServerError, errors.New("stub"))
		}
		body := ""
		if p.body != nil {
			b, _ := json.Marshal(p.body)
			body = string(b)
		}
		hr := f.DoHTTP(p.method, p.path, body, p.headers)
		gr := f.DoGRPC(p.grpc)
		fail := func(format string, a ...any) {
			msg := fmt.Sprintf(format, a...)
			core.SaveFailure("last", map[string]any{"violation": msg, "http": fmt.Sprintf("%s %s %s %v", p.method, p.path, body, p.headers)})
			rt.Fatalf("VIOLATION %s %s", prop, msg)
		}
		if hr.Panic != nil || gr.Panic != nil {
			fail("%s: panic http=%v grpc=%v (HTTP %s %s %s)", p.name, hr.Panic, gr.Panic, p.method, p.path, body)
		}
		if len(captured) == 0 {
			stats.Class("rejected-by-both-front-ends")
			return
		}
		if len(captured) != 2 {
			fail("%s: %d kernel requests (one front end rejected what the other accepted): HTTP %d %s / gRPC %v", p.name, len(captured), hr.Code, truncate(string(hr.Body), 200), gr.Err)
		}
		a, b := normReq(captured[0]), normReq(captured[1])
		if a != b {
			fail("%s: equivalent requests reach the kernel differently:\n http: %s\n grpc: %s", p.name, a, b)
		}
		if captured[0].Tags["protocol"] != "http" || captured[1].Tags["protocol"] != "grpc" {
			fail("%s: protocol tags %v %v", p.name, captured[0].Tags, captured[1].Tags)
		}
		stats.Class("op:" + strings.SplitN(p.name, ":", 2)[0])
		if strings.Contains(p.name, ":link@") {
			stats.Class("link-form-with-task-frequency:" + strings.SplitN(p.name, "@", 2)[1])
		}
		if len(p.headers) > 0 || strings.Contains(body, "tags") || strings.Contains(body, "headers") {
			stats.Nontriv(p.name+a, map[string]any{"http": fmt.Sprintf("%s %s %s %v", p.method, p.path, truncate(body, 200), p.headers), "kernel_request": truncate(a, 300)})
		}
	})
}

// TestEquiv — the request-translation tier of another property (VERIF_PROP), restricted to its operations (VERIF_EQUIV_OPS).
func TestEquiv(t *testing.T) {
	prop := core.Env("VERIF_PROP", "C15")
	ops := map[string]bool{}
	for _, o := range strings.Split(core.Env("VERIF_EQUIV_OPS", ""), ",") {
		if o != "" {
			ops[o] = true
		}
	}
	stats := core.NewStats(prop, "tier (f), front ends: well-formed abstract requests of this property's operations ("+core.Env("VERIF_EQUIV_OPS", "")+") rendered to HTTP and to gRPC, through the real gin handler and the real gRPC service methods, must reach the kernel as the same t_api.Request (nil == empty, request tags apart): the fields the statement speaks about (keys, strict flag, states, counters, ttl, tags, time-outs, receivers) travel unchanged through both protocols. Non-trivial: a request with >=1 optional field set. Distinct = request rendering.")
	defer stats.Write()
	f := NewFronts()
	defer f.Close()
	if len(ops) == 0 {
		ops = nil // every operation
	}
	equivalence(t, f, stats, prop, ops)
}

// TestRefusals — the front-end end of C12 ("exactly one response, also under back-pressure and shutdown"): what the
// kernel answers when it turns a request away (shutting down 50300, api queue full 50301, aio queue full 50302,
// scheduler queue full 50303 — errors WITHOUT a cause) must reach the client as a response through every endpoint of
// both protocols: a handler that panics drops the reply (HTTP) or takes the process down (gRPC). The exhaustive
// matrix of C15 is run and its findings for these deliveries are C12's.
func TestRefusals(t *testing.T) {
	prop := core.Env("VERIF_PROP", "C12")
	stats := core.NewStats(prop, "tier (f), front ends: every endpoint of both protocols x the kernel's refusals (50300 shutting down, 50301 api queue full, 50302 aio queue full, 50303 scheduler queue full, delivered as errors without a cause, as the kernel does) through the real gin handler and the real gRPC service methods: each must be rendered as a response (HTTP 503 with an error body carrying the status, gRPC Unavailable), never a panic / dropped reply. Exhaustive on every run. Non-trivial: every combination. Distinct = (endpoint, status).")
	defer stats.Write()
	f := NewFronts()
	defer f.Close()
	for _, x := range matrix(f, stats) {
		for _, code := range []string{"50300/", "50301/", "50302/", "50303/"} {
			if strings.Contains(x.msg, "kernel outcome "+code) {
				core.SaveFailure("last", map[string]any{"violation": x.msg})
				t.Fatalf("VIOLATION %s a refusal of the kernel does not reach the client: %s", prop, x.msg)
			}
		}
	}
	stats.Extra["exhaustive"] = true
}
