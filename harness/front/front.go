// Package front decides C15: both front ends render every kernel outcome faithfully and identically.
package front

import (
	"bytes"
	"context"
	"encoding/json"
	"fmt"
	"go/ast"
	"go/parser"
	"go/token"
	"net/http"
	"net/http/httptest"
	"path/filepath"
	"sort"
	"strconv"
	"time"

	i_api "github.com/resonatehq/resonate/internal/api"
	grpcApi "github.com/resonatehq/resonate/internal/app/subsystems/api/grpc"
	"github.com/resonatehq/resonate/internal/app/subsystems/api/grpc/pb"
	httpApi "github.com/resonatehq/resonate/internal/app/subsystems/api/http"
	"github.com/resonatehq/resonate/internal/kernel/bus"
	"github.com/resonatehq/resonate/internal/kernel/t_api"
	"github.com/resonatehq/resonate/internal/verif/core"
	"github.com/resonatehq/resonate/pkg/callback"
	"github.com/resonatehq/resonate/pkg/idempotency"
	"github.com/resonatehq/resonate/pkg/lock"
	"github.com/resonatehq/resonate/pkg/message"
	"github.com/resonatehq/resonate/pkg/promise"
	"github.com/resonatehq/resonate/pkg/schedule"
	"github.com/resonatehq/resonate/pkg/task"
)

// Stub is a kernel that answers every request with a programmed response or error and records the request.
type Stub struct {
	Res  func(req *t_api.Request) (*t_api.Response, error)
	Last *t_api.Request
	N    int
}

func (s *Stub) String() string                               { return "stub" }
func (s *Stub) Start() error                                 { return nil }
func (s *Stub) Stop() error                                  { return nil }
func (s *Stub) Shutdown()                                    {}
func (s *Stub) Done() bool                                   { return false }
func (s *Stub) Errors() <-chan error                         { return nil }
func (s *Stub) Signal(<-chan interface{}) <-chan interface{} { return nil }
func (s *Stub) EnqueueSQE(sqe *bus.SQE[t_api.Request, t_api.Response]) {
	s.Last = sqe.Submission
	s.N++
	res, err := s.Res(sqe.Submission)
	sqe.Callback(res, err)
}
func (s *Stub) DequeueSQE(int) []*bus.SQE[t_api.Request, t_api.Response] { return nil }
func (s *Stub) EnqueueCQE(*bus.CQE[t_api.Request, t_api.Response])       {}
func (s *Stub) DequeueCQE(cq <-chan *bus.CQE[t_api.Request, t_api.Response]) *bus.CQE[t_api.Request, t_api.Response] {
	return <-cq
}

var _ i_api.API = (*Stub)(nil)

// Statuses reads every StatusCode constant from the repository's t_api/status.go at run time, so that a
// newly added status is part of the matrix automatically.
func Statuses() map[string]int {
	path := filepath.Join(core.Env("VERIF_REPO", "/repo"), "internal/kernel/t_api/status.go")
	fset := token.NewFileSet()
	f, err := parser.ParseFile(fset, path, nil, 0)
	if err != nil {
		panic(err)
	}
	out := map[string]int{}
	for _, d := range f.Decls {
		gd, ok := d.(*ast.GenDecl)
		if !ok || gd.Tok != token.CONST {
			continue
		}
		for _, sp := range gd.Specs {
			vs := sp.(*ast.ValueSpec)
			if id, ok := vs.Type.(*ast.Ident); !ok || id.Name != "StatusCode" {
				continue
			}
			for i, n := range vs.Names {
				if lit, ok := vs.Values[i].(*ast.BasicLit); ok {
					v, _ := strconv.Atoi(lit.Value)
					out[n.Name] = v
				}
			}
		}
	}
	return out
}

func SortedStatuses() []int {
	var out []int
	for _, v := range Statuses() {
		out = append(out, v)
	}
	sort.Ints(out)
	return out
}

// ---------------------------------------------------------------------------
// endpoints

type Endpoint struct {
	Name string
	Kind t_api.Kind
	// HTTP request that passes validation
	Method, Path, Body string
	Headers            map[string]string
	// gRPC call
	Grpc func(s grpcApi.VerifServer) (any, error)
	// success statuses the coroutine of this operation can return
	OK []t_api.StatusCode
	// Flag extracts the outcome flag of the gRPC reply (name, value), if the reply has one
	Flag func(reply any) (string, bool, bool)
	// FlagWant maps a success status to the expected flag value
	FlagWant func(st t_api.StatusCode) bool
}

func ptr[T any](v T) *T { return &v }

var ctx = context.Background()

func Endpoints() []Endpoint {
	noop := func(st t_api.StatusCode) bool { return st == t_api.StatusOK }
	created := func(st t_api.StatusCode) bool { return st == t_api.StatusCreated }
	recv := &pb.Recv{Recv: &pb.Recv_Logical{Logical: "poll://g/w"}}
	return []Endpoint{
		{Name: "ReadPromise", Kind: t_api.ReadPromise, Method: "GET", Path: "/promises/foo", OK: []t_api.StatusCode{t_api.StatusOK},
			Grpc: func(s grpcApi.VerifServer) (any, error) { return s.ReadPromise(ctx, &pb.ReadPromiseRequest{Id: "foo"}) }},
		{Name: "SearchPromises", Kind: t_api.SearchPromises, Method: "GET", Path: "/promises?id=*&limit=10", OK: []t_api.StatusCode{t_api.StatusOK},
			Grpc: func(s grpcApi.VerifServer) (any, error) {
				return s.SearchPromises(ctx, &pb.SearchPromisesRequest{Id: "*", Limit: 10})
			}},
		{Name: "CreatePromise", Kind: t_api.CreatePromise, Method: "POST", Path: "/promises", Body: `{"id":"foo","timeout":1}`, OK: []t_api.StatusCode{t_api.StatusOK, t_api.StatusCreated},
			Grpc: func(s grpcApi.VerifServer) (any, error) {
				return s.CreatePromise(ctx, &pb.CreatePromiseRequest{Id: "foo", Timeout: 1})
			},
			Flag: func(r any) (string, bool, bool) { return "noop", r.(*pb.CreatePromiseResponse).Noop, true }, FlagWant: noop},
		{Name: "CreatePromiseAndTask", Kind: t_api.CreatePromiseAndTask, Method: "POST", Path: "/promises/task", Body: `{"promise":{"id":"foo","timeout":1},"task":{"processId":"w","ttl":1}}`, OK: []t_api.StatusCode{t_api.StatusOK, t_api.StatusCreated},
			Grpc: func(s grpcApi.VerifServer) (any, error) {
				return s.CreatePromiseAndTask(ctx, &pb.CreatePromiseAndTaskRequest{Promise: &pb.CreatePromiseRequest{Id: "foo", Timeout: 1}, Task: &pb.CreatePromiseTaskRequest{ProcessId: "w", Ttl: 1}})
			},
			Flag: func(r any) (string, bool, bool) { return "noop", r.(*pb.CreatePromiseAndTaskResponse).Noop, true }, FlagWant: noop},
		{Name: "ResolvePromise", Kind: t_api.CompletePromise, Method: "PATCH", Path: "/promises/foo", Body: `{"state":"RESOLVED"}`, OK: []t_api.StatusCode{t_api.StatusOK, t_api.StatusCreated},
			Grpc: func(s grpcApi.VerifServer) (any, error) {
				return s.ResolvePromise(ctx, &pb.ResolvePromiseRequest{Id: "foo"})
			},
			Flag: func(r any) (string, bool, bool) { return "noop", r.(*pb.ResolvePromiseResponse).Noop, true }, FlagWant: noop},
		{Name: "RejectPromise", Kind: t_api.CompletePromise, Method: "PATCH", Path: "/promises/foo", Body: `{"state":"REJECTED"}`, OK: []t_api.StatusCode{t_api.StatusOK, t_api.StatusCreated},
			Grpc: func(s grpcApi.VerifServer) (any, error) {
				return s.RejectPromise(ctx, &pb.RejectPromiseRequest{Id: "foo"})
			},
			Flag: func(r any) (string, bool, bool) { return "noop", r.(*pb.RejectPromiseResponse).Noop, true }, FlagWant: noop},
		{Name: "CancelPromise", Kind: t_api.CompletePromise, Method: "PATCH", Path: "/promises/foo", Body: `{"state":"REJECTED_CANCELED"}`, OK: []t_api.StatusCode{t_api.StatusOK, t_api.StatusCreated},
			Grpc: func(s grpcApi.VerifServer) (any, error) {
				return s.CancelPromise(ctx, &pb.CancelPromiseRequest{Id: "foo"})
			},
			Flag: func(r any) (string, bool, bool) { return "noop", r.(*pb.CancelPromiseResponse).Noop, true }, FlagWant: noop},
		{Name: "CreateCallback", Kind: t_api.CreateCallback, Method: "POST", Path: "/callbacks", Body: `{"Id":"cb","promiseId":"foo","rootPromiseId":"bar","timeout":1,"recv":"poll://g/w"}`, OK: []t_api.StatusCode{t_api.StatusOK, t_api.StatusCreated},
			Grpc: func(s grpcApi.VerifServer) (any, error) {
				return s.CreateCallback(ctx, &pb.CreateCallbackRequest{Id: "cb", PromiseId: "foo", RootPromiseId: "bar", Timeout: 1, Recv: recv})
			},
			Flag: func(r any) (string, bool, bool) { return "noop", r.(*pb.CreateCallbackResponse).Noop, true }, FlagWant: noop},
		{Name: "CreateSubscription", Kind: t_api.CreateSubscription, Method: "POST", Path: "/subscriptions", Body: `{"Id":"s","promiseId":"foo","timeout":1,"recv":"poll://g/w"}`, OK: []t_api.StatusCode{t_api.StatusOK, t_api.StatusCreated},
			Grpc: func(s grpcApi.VerifServer) (any, error) {
				return s.CreateSubscription(ctx, &pb.CreateSubscriptionRequest{Id: "s", PromiseId: "foo", Timeout: 1, Recv: recv})
			},
			Flag: func(r any) (string, bool, bool) { return "noop", r.(*pb.CreateSubscriptionResponse).Noop, true }, FlagWant: noop},
		{Name: "ReadSchedule", Kind: t_api.ReadSchedule, Method: "GET", Path: "/schedules/foo", OK: []t_api.StatusCode{t_api.StatusOK},
			Grpc: func(s grpcApi.VerifServer) (any, error) {
				return s.ReadSchedule(ctx, &pb.ReadScheduleRequest{Id: "foo"})
			}},
		{Name: "SearchSchedules", Kind: t_api.SearchSchedules, Method: "GET", Path: "/schedules?id=*&limit=10", OK: []t_api.StatusCode{t_api.StatusOK},
			Grpc: func(s grpcApi.VerifServer) (any, error) {
				return s.SearchSchedules(ctx, &pb.SearchSchedulesRequest{Id: "*", Limit: 10})
			}},
		{Name: "CreateSchedule", Kind: t_api.CreateSchedule, Method: "POST", Path: "/schedules", Body: `{"id":"foo","cron":"* * * * *","promiseId":"foo.{{.timestamp}}","promiseTimeout":1}`, OK: []t_api.StatusCode{t_api.StatusOK, t_api.StatusCreated},
			Grpc: func(s grpcApi.VerifServer) (any, error) {
				return s.CreateSchedule(ctx, &pb.CreateScheduleRequest{Id: "foo", Cron: "* * * * *", PromiseId: "foo.{{.timestamp}}", PromiseTimeout: 1})
			}},
		{Name: "DeleteSchedule", Kind: t_api.DeleteSchedule, Method: "DELETE", Path: "/schedules/foo", OK: []t_api.StatusCode{t_api.StatusNoContent},
			Grpc: func(s grpcApi.VerifServer) (any, error) {
				return s.DeleteSchedule(ctx, &pb.DeleteScheduleRequest{Id: "foo"})
			}},
		{Name: "AcquireLock", Kind: t_api.AcquireLock, Method: "POST", Path: "/locks/acquire", Body: `{"resourceId":"r","executionId":"e","processId":"p","ttl":1}`, OK: []t_api.StatusCode{t_api.StatusCreated},
			Grpc: func(s grpcApi.VerifServer) (any, error) {
				return s.AcquireLock(ctx, &pb.AcquireLockRequest{ResourceId: "r", ExecutionId: "e", ProcessId: "p", Ttl: 1})
			},
			Flag: func(r any) (string, bool, bool) { return "acquired", r.(*pb.AcquireLockResponse).Acquired, true }, FlagWant: created},
		{Name: "ReleaseLock", Kind: t_api.ReleaseLock, Method: "POST", Path: "/locks/release", Body: `{"resourceId":"r","executionId":"e"}`, OK: []t_api.StatusCode{t_api.StatusNoContent},
			Grpc: func(s grpcApi.VerifServer) (any, error) {
				return s.ReleaseLock(ctx, &pb.ReleaseLockRequest{ResourceId: "r", ExecutionId: "e"})
			},
			Flag:     func(r any) (string, bool, bool) { return "released", r.(*pb.ReleaseLockResponse).Released, true },
			FlagWant: func(st t_api.StatusCode) bool { return st.IsSuccessful() }},
		{Name: "HeartbeatLocks", Kind: t_api.HeartbeatLocks, Method: "POST", Path: "/locks/heartbeat", Body: `{"processId":"p"}`, OK: []t_api.StatusCode{t_api.StatusOK},
			Grpc: func(s grpcApi.VerifServer) (any, error) {
				return s.HeartbeatLocks(ctx, &pb.HeartbeatLocksRequest{ProcessId: "p"})
			}},
		{Name: "ClaimTask", Kind: t_api.ClaimTask, Method: "POST", Path: "/tasks/claim", Body: `{"id":"t","counter":1,"processId":"p","ttl":1}`, OK: []t_api.StatusCode{t_api.StatusCreated},
			Grpc: func(s grpcApi.VerifServer) (any, error) {
				return s.ClaimTask(ctx, &pb.ClaimTaskRequest{Id: "t", Counter: 1, ProcessId: "p", Ttl: 1})
			},
			Flag: func(r any) (string, bool, bool) { return "claimed", r.(*pb.ClaimTaskResponse).Claimed, true }, FlagWant: created},
		{Name: "ClaimTaskGet", Kind: t_api.ClaimTask, Method: "GET", Path: "/tasks/claim/t/1", OK: []t_api.StatusCode{t_api.StatusCreated}},
		{Name: "CompleteTask", Kind: t_api.CompleteTask, Method: "POST", Path: "/tasks/complete", Body: `{"id":"t","counter":1}`, OK: []t_api.StatusCode{t_api.StatusOK, t_api.StatusCreated},
			Grpc: func(s grpcApi.VerifServer) (any, error) {
				return s.CompleteTask(ctx, &pb.CompleteTaskRequest{Id: "t", Counter: 1})
			},
			Flag: func(r any) (string, bool, bool) { return "completed", r.(*pb.CompleteTaskResponse).Completed, true }, FlagWant: created},
		{Name: "CompleteTaskGet", Kind: t_api.CompleteTask, Method: "GET", Path: "/tasks/complete/t/1", OK: []t_api.StatusCode{t_api.StatusOK, t_api.StatusCreated}},
		{Name: "HeartbeatTasks", Kind: t_api.HeartbeatTasks, Method: "POST", Path: "/tasks/heartbeat", Body: `{"processId":"p"}`, OK: []t_api.StatusCode{t_api.StatusOK},
			Grpc: func(s grpcApi.VerifServer) (any, error) {
				return s.HeartbeatTasks(ctx, &pb.HeartbeatTasksRequest{ProcessId: "p"})
			}},
		{Name: "HeartbeatTasksGet", Kind: t_api.HeartbeatTasks, Method: "GET", Path: "/tasks/heartbeat/t/1", OK: []t_api.StatusCode{t_api.StatusOK}},
	}
}

// ---------------------------------------------------------------------------
// response shapes a coroutine can actually return (taken from the return sites)

func fullPromise(st promise.State) *promise.Promise {
	p := &promise.Promise{Id: "foo", State: st, Param: promise.Value{Headers: map[string]string{"a": "b"}, Data: []byte("x")}, Timeout: 9, IdempotencyKeyForCreate: ptr(idempotency.Key("k")),
		Tags: map[string]string{"t": "v"}, CreatedOn: ptr(int64(1))}
	if st != promise.Pending {
		p.Value = promise.Value{Headers: map[string]string{"c": "d"}, Data: []byte("y")}
		p.IdempotencyKeyForComplete = ptr(idempotency.Key("kc"))
		p.CompletedOn = ptr(int64(2))
	}
	return p
}

func barePromise() *promise.Promise { return &promise.Promise{Id: "foo", State: promise.Pending} }

func fullTask(mt message.Type) *task.Task {
	return &task.Task{Id: "t", Counter: 1, Timeout: 9, ProcessId: ptr("p"), State: task.Claimed, RootPromiseId: "foo", Recv: []byte(`"poll://g"`), Mesg: &message.Mesg{Type: mt, Root: "foo", Leaf: "bar"}, Ttl: 1, ExpiresAt: 5, CreatedOn: ptr(int64(1))}
}

func fullSchedule() *schedule.Schedule {
	return &schedule.Schedule{Id: "foo", Description: "d", Cron: "* * * * *", Tags: map[string]string{"a": "b"}, PromiseId: "foo.{{.timestamp}}", PromiseTimeout: 1, PromiseParam: promise.Value{Data: []byte("x")},
		PromiseTags: map[string]string{"c": "d"}, LastRunTime: ptr(int64(3)), NextRunTime: 4, IdempotencyKey: ptr(idempotency.Key("k")), CreatedOn: 1}
}

type Shape struct {
	Name string
	Res  *t_api.Response
}

// Shapes lists the responses operation kind may produce with success status st.
func Shapes(kind t_api.Kind, st t_api.StatusCode) []Shape {
	states := []promise.State{promise.Pending, promise.Resolved, promise.Rejected, promise.Canceled, promise.Timedout}
	var out []Shape
	add := func(n string, r *t_api.Response) { r.Kind = kind; out = append(out, Shape{n, r}) }
	promises := func(f func(p *promise.Promise) *t_api.Response) {
		for _, s := range states {
			add("promise-"+s.String(), f(fullPromise(s)))
		}
		add("promise-bare", f(barePromise()))
	}
	cb := &callback.Callback{Id: "cb", PromiseId: "foo", RootPromiseId: "bar", Recv: []byte(`"x"`), Mesg: &message.Mesg{Type: message.Resume, Root: "bar", Leaf: "foo"}, Timeout: 1, CreatedOn: 1}
	switch kind {
	case t_api.ReadPromise:
		promises(func(p *promise.Promise) *t_api.Response {
			return &t_api.Response{ReadPromise: &t_api.ReadPromiseResponse{Status: st, Promise: p}}
		})
	case t_api.SearchPromises:
		add("empty", &t_api.Response{SearchPromises: &t_api.SearchPromisesResponse{Status: st, Promises: []*promise.Promise{}}})
		add("page+cursor", &t_api.Response{SearchPromises: &t_api.SearchPromisesResponse{Status: st, Promises: []*promise.Promise{fullPromise(promise.Resolved), barePromise()},
			Cursor: &t_api.Cursor[t_api.SearchPromisesRequest]{Next: &t_api.SearchPromisesRequest{Id: "*", States: []promise.State{promise.Pending}, Tags: map[string]string{}, Limit: 2, SortId: ptr(int64(3))}}}})
	case t_api.CreatePromise:
		promises(func(p *promise.Promise) *t_api.Response {
			return &t_api.Response{CreatePromise: &t_api.CreatePromiseResponse{Status: st, Promise: p}}
		})
	case t_api.CreatePromiseAndTask:
		if st == t_api.StatusCreated {
			add("promise+task", &t_api.Response{CreatePromiseAndTask: &t_api.CreatePromiseAndTaskResponse{Status: st, Promise: fullPromise(promise.Pending), Task: fullTask(message.Invoke)}})
		} else {
			promises(func(p *promise.Promise) *t_api.Response {
				return &t_api.Response{CreatePromiseAndTask: &t_api.CreatePromiseAndTaskResponse{Status: st, Promise: p, Task: nil}}
			})
		}
	case t_api.CompletePromise:
		promises(func(p *promise.Promise) *t_api.Response {
			return &t_api.Response{CompletePromise: &t_api.CompletePromiseResponse{Status: st, Promise: p}}
		})
	case t_api.CreateCallback:
		if st == t_api.StatusCreated {
			add("callback+promise", &t_api.Response{CreateCallback: &t_api.CreateCallbackResponse{Status: st, Callback: cb, Promise: fullPromise(promise.Pending)}})
		} else {
			add("nil-callback+pending", &t_api.Response{CreateCallback: &t_api.CreateCallbackResponse{Status: st, Promise: fullPromise(promise.Pending)}})
			add("nil-callback+completed", &t_api.Response{CreateCallback: &t_api.CreateCallbackResponse{Status: st, Promise: fullPromise(promise.Resolved)}})
		}
	case t_api.CreateSubscription:
		if st == t_api.StatusCreated {
			add("callback+promise", &t_api.Response{CreateSubscription: &t_api.CreateSubscriptionResponse{Status: st, Callback: cb, Promise: fullPromise(promise.Pending)}})
		} else {
			add("nil-callback+pending", &t_api.Response{CreateSubscription: &t_api.CreateSubscriptionResponse{Status: st, Promise: barePromise()}})
			add("nil-callback+completed", &t_api.Response{CreateSubscription: &t_api.CreateSubscriptionResponse{Status: st, Promise: fullPromise(promise.Timedout)}})
		}
	case t_api.ReadSchedule:
		add("schedule", &t_api.Response{ReadSchedule: &t_api.ReadScheduleResponse{Status: st, Schedule: fullSchedule()}})
		add("schedule-bare", &t_api.Response{ReadSchedule: &t_api.ReadScheduleResponse{Status: st, Schedule: &schedule.Schedule{Id: "foo"}}})
	case t_api.SearchSchedules:
		add("empty", &t_api.Response{SearchSchedules: &t_api.SearchSchedulesResponse{Status: st, Schedules: []*schedule.Schedule{}}})
		add("page+cursor", &t_api.Response{SearchSchedules: &t_api.SearchSchedulesResponse{Status: st, Schedules: []*schedule.Schedule{fullSchedule(), {Id: "x"}},
			Cursor: &t_api.Cursor[t_api.SearchSchedulesRequest]{Next: &t_api.SearchSchedulesRequest{Id: "*", Tags: map[string]string{}, Limit: 2, SortId: ptr(int64(3))}}}})
	case t_api.CreateSchedule:
		add("schedule", &t_api.Response{CreateSchedule: &t_api.CreateScheduleResponse{Status: st, Schedule: fullSchedule()}})
		add("schedule-bare", &t_api.Response{CreateSchedule: &t_api.CreateScheduleResponse{Status: st, Schedule: &schedule.Schedule{Id: "foo"}}})
	case t_api.DeleteSchedule:
		add("empty", &t_api.Response{DeleteSchedule: &t_api.DeleteScheduleResponse{Status: st}})
	case t_api.AcquireLock:
		add("lock", &t_api.Response{AcquireLock: &t_api.AcquireLockResponse{Status: st, Lock: &lock.Lock{ResourceId: "r", ExecutionId: "e", ProcessId: "p", Ttl: 1, ExpiresAt: 2}}})
	case t_api.ReleaseLock:
		add("empty", &t_api.Response{ReleaseLock: &t_api.ReleaseLockResponse{Status: st}})
	case t_api.HeartbeatLocks:
		add("zero", &t_api.Response{HeartbeatLocks: &t_api.HeartbeatLocksResponse{Status: st}})
		add("some", &t_api.Response{HeartbeatLocks: &t_api.HeartbeatLocksResponse{Status: st, LocksAffected: 3}})
	case t_api.ClaimTask:
		for _, mt := range []message.Type{message.Invoke, message.Resume} {
			add(string(mt)+"/promises", &t_api.Response{ClaimTask: &t_api.ClaimTaskResponse{Status: st, Task: fullTask(mt), RootPromise: fullPromise(promise.Pending), LeafPromise: fullPromise(promise.Resolved), RootPromiseHref: "http://x/promises/foo", LeafPromiseHref: "http://x/promises/bar"}})
			add(string(mt)+"/nil-promises", &t_api.Response{ClaimTask: &t_api.ClaimTaskResponse{Status: st, Task: fullTask(mt), RootPromiseHref: "http://x/promises/foo"}})
		}
	case t_api.CompleteTask:
		add("task", &t_api.Response{CompleteTask: &t_api.CompleteTaskResponse{Status: st, Task: fullTask(message.Invoke)}})
		add("task-bare", &t_api.Response{CompleteTask: &t_api.CompleteTaskResponse{Status: st, Task: &task.Task{Id: "t"}}})
	case t_api.HeartbeatTasks:
		add("zero", &t_api.Response{HeartbeatTasks: &t_api.HeartbeatTasksResponse{Status: st}})
		add("some", &t_api.Response{HeartbeatTasks: &t_api.HeartbeatTasksResponse{Status: st, TasksAffected: 2}})
	}
	return out
}

// FailureResponse is a response that only carries a non-successful status (how coroutines report 4xx).
func FailureResponse(kind t_api.Kind, st t_api.StatusCode) *t_api.Response {
	r := &t_api.Response{Kind: kind}
	switch kind {
	case t_api.ReadPromise:
		r.ReadPromise = &t_api.ReadPromiseResponse{Status: st}
	case t_api.SearchPromises:
		r.SearchPromises = &t_api.SearchPromisesResponse{Status: st}
	case t_api.CreatePromise:
		r.CreatePromise = &t_api.CreatePromiseResponse{Status: st, Promise: fullPromise(promise.Resolved)}
	case t_api.CreatePromiseAndTask:
		r.CreatePromiseAndTask = &t_api.CreatePromiseAndTaskResponse{Status: st}
	case t_api.CompletePromise:
		r.CompletePromise = &t_api.CompletePromiseResponse{Status: st, Promise: fullPromise(promise.Rejected)}
	case t_api.CreateCallback:
		r.CreateCallback = &t_api.CreateCallbackResponse{Status: st}
	case t_api.CreateSubscription:
		r.CreateSubscription = &t_api.CreateSubscriptionResponse{Status: st}
	case t_api.ReadSchedule:
		r.ReadSchedule = &t_api.ReadScheduleResponse{Status: st}
	case t_api.SearchSchedules:
		r.SearchSchedules = &t_api.SearchSchedulesResponse{Status: st}
	case t_api.CreateSchedule:
		r.CreateSchedule = &t_api.CreateScheduleResponse{Status: st, Schedule: fullSchedule()}
	case t_api.DeleteSchedule:
		r.DeleteSchedule = &t_api.DeleteScheduleResponse{Status: st}
	case t_api.AcquireLock:
		r.AcquireLock = &t_api.AcquireLockResponse{Status: st}
	case t_api.ReleaseLock:
		r.ReleaseLock = &t_api.ReleaseLockResponse{Status: st}
	case t_api.HeartbeatLocks:
		r.HeartbeatLocks = &t_api.HeartbeatLocksResponse{Status: st}
	case t_api.ClaimTask:
		r.ClaimTask = &t_api.ClaimTaskResponse{Status: st, Task: fullTask(message.Invoke)}
	case t_api.CompleteTask:
		r.CompleteTask = &t_api.CompleteTaskResponse{Status: st, Task: fullTask(message.Invoke)}
	case t_api.HeartbeatTasks:
		r.HeartbeatTasks = &t_api.HeartbeatTasksResponse{Status: st}
	}
	return r
}

// ---------------------------------------------------------------------------
// drivers

type Fronts struct {
	Stub *Stub
	HTTP http.Handler
	GRPC grpcApi.VerifServer
	stop func()
}

func NewFronts() *Fronts { return NewFrontsWith(time.Minute) }

// NewFrontsWith: the HTTP front end with a given --api-http-task-frequency (default 1m)
func NewFrontsWith(freq time.Duration) *Fronts {
	st := &Stub{}
	sub, err := httpApi.New(st, &httpApi.Config{Addr: "127.0.0.1:0", TaskFrequency: freq})
	if err != nil {
		panic(err)
	}
	h := sub.(*httpApi.Http)
	return &Fronts{Stub: st, HTTP: h.VerifHandler(), GRPC: grpcApi.NewVerifServer(st), stop: func() { _ = h.Stop() }}
}

func (f *Fronts) Close() { f.stop() }

type HTTPResult struct {
	Code     int
	Body     []byte
	Panic    any
	NoReply  bool
	Requests int
}

// DoHTTP serves one request through the real handler; a panic is caught and reported.
func (f *Fronts) DoHTTP(method, path, body string, headers map[string]string) (res HTTPResult) {
	before := f.Stub.N
	rec := httptest.NewRecorder()
	req := httptest.NewRequest(method, path, bytes.NewReader([]byte(body)))
	if body != "" {
		req.Header.Set("Content-Type", "application/json")
	}
	for k, v := range headers {
		req.Header.Set(k, v)
	}
	func() {
		defer func() {
			if p := recover(); p != nil {
				res.Panic = p
			}
		}()
		f.HTTP.ServeHTTP(rec, req)
	}()
	res.Code, res.Body, res.Requests = rec.Code, rec.Body.Bytes(), f.Stub.N-before
	return
}

type GRPCResult struct {
	Reply any
	Err   error
	Panic any
}

func (f *Fronts) DoGRPC(call func(s grpcApi.VerifServer) (any, error)) (res GRPCResult) {
	defer func() {
		if p := recover(); p != nil {
			res.Panic = p
		}
	}()
	res.Reply, res.Err = call(f.GRPC)
	return
}

// ErrorBody is the documented shape of an HTTP error reply.
type ErrorBody struct {
	Error *struct {
		Code    int    `json:"code"`
		Message string `json:"message"`
	} `json:"error"`
}

func ParseErrorBody(b []byte) (*ErrorBody, error) {
	var e ErrorBody
	if err := json.Unmarshal(b, &e); err != nil {
		return nil, err
	}
	if e.Error == nil {
		return nil, fmt.Errorf("no error object in %s", b)
	}
	return &e, nil
}
