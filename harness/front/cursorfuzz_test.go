package front

import (
	"crypto/hmac"
	"crypto/sha256"
	"encoding/base64"
	"testing"
	"unicode/utf8"

	"github.com/resonatehq/resonate/internal/app/subsystems/api"
)

// sign renders claims as a token signed with the (constant, public) cursor key: a well-signed forged cursor.
func sign(claims []byte) string {
	enc := base64.RawURLEncoding
	head := enc.EncodeToString([]byte(`{"alg":"HS256","typ":"JWT"}`))
	body := enc.EncodeToString(claims)
	mac := hmac.New(sha256.New, []byte("resonate"))
	mac.Write([]byte(head + "." + body))
	return head + "." + body + "." + enc.EncodeToString(mac.Sum(nil))
}

// FuzzForgedCursor — coverage-guided adjunct of C14 (thorough tier; quick = seed corpus): the signing key of cursors
// is a constant, so any client can present a well-signed cursor with ANY claims. Whatever the claims, the API layer
// both front ends go through must not panic, and a cursor it accepts must be a request the kernel can execute
// (what the kernel asserts: an id pattern, a non-empty state list for promises, a page size of 1..100, non-nil tags).
func FuzzForgedCursor(f *testing.F) {
	for _, s := range []string{`{"Next":{"id":"*","states":["PENDING"],"tags":{},"limit":10,"sortId":5}}`, `{"Next":null}`, `{}`, `{"Next":{}}`, `{"Next":{"id":"","limit":0}}`,
		`{"Next":{"id":"*","states":[],"limit":1}}`, `{"Next":{"id":"*","states":["NOPE"],"limit":1}}`, `{"Next":{"id":"*","states":["PENDING"],"limit":101}}`, `{"Next":{"id":"*","states":["PENDING"],"tags":{},"limit":0}}`, `{"Next":{"id":"*","tags":{},"limit":0}}`, `{"Next":{"id":"*","states":["PENDING"],"tags":{},"limit":100}}`, `{"Next":{"id":"*","states":["PENDING"],"tags":{},"limit":1}}`, `{"Next":{"id":"*","states":["PENDING"],"limit":-1}}`,
		`{"Next":{"id":"*","states":["PENDING"],"tags":null,"limit":100,"sortId":null}}`, `{"Next":{"id":"a*","tags":{"k":"v"},"limit":3,"sortId":1}}`, `{"Next":[1]}`, `{"Next":"x"}`, `null`, `[]`, `{"Next":{"id":1}}`,
		`{"Next":{"id":"*","states":["PENDING"],"limit":1e3}}`, `{"Next":{"id":"*","states":["PENDING"],"limit":9223372036854775808}}`, `{"Next":{"Id":"*","States":["RESOLVED"],"Limit":5,"SortId":7}}`} {
		f.Add([]byte(s))
	}
	a := api.New(nil, "verif")
	f.Fuzz(func(t *testing.T, claims []byte) {
		if !utf8.Valid(claims) {
			t.Skip()
		}
		tok := sign(claims)
		if r, err := a.SearchPromises("", "", nil, 0, tok); err == nil {
			if r == nil || r.Id == "" || len(r.States) == 0 || r.Limit < 1 || r.Limit > 100 || r.Tags == nil {
				t.Fatalf("VIOLATION C14 a well-signed forged cursor with claims %s is accepted as the promise search %v, which the kernel cannot execute", claims, r)
			}
		}
		if r, err := a.SearchSchedules("", nil, 0, tok); err == nil {
			if r == nil || r.Id == "" || r.Limit < 1 || r.Limit > 100 || r.Tags == nil {
				t.Fatalf("VIOLATION C14 a well-signed forged cursor with claims %s is accepted as the schedule search %v, which the kernel cannot execute", claims, r)
			}
		}
	})
}
