// Package pollt decides C18: the poll transport delivers each accepted message to exactly one right listener.
package pollt

import (
	"bufio"
	"context"
	"encoding/json"
	"fmt"
	"net/http"
	"strings"
	"sync"
	"testing"
	"time"

	"github.com/prometheus/client_golang/prometheus"
	"github.com/resonatehq/resonate/internal/aio"
	"github.com/resonatehq/resonate/internal/app/plugins/poll"
	"github.com/resonatehq/resonate/internal/app/subsystems/aio/sender"
	"github.com/resonatehq/resonate/internal/kernel/bus"
	"github.com/resonatehq/resonate/internal/kernel/t_aio"
	"github.com/resonatehq/resonate/internal/metrics"
	"github.com/resonatehq/resonate/internal/verif/core"
	"github.com/resonatehq/resonate/pkg/message"
	"github.com/resonatehq/resonate/pkg/promise"
	"github.com/resonatehq/resonate/pkg/receiver"
	"github.com/resonatehq/resonate/pkg/task"
	"pgregory.net/rapid"
)

// cqStub receives the production sender's completions and delivers them to the submission's callback at once.
type cqStub struct{ aio.AIO }

func (cqStub) EnqueueCQE(c *bus.CQE[t_aio.Submission, t_aio.Completion]) {
	c.Callback(c.Completion, c.Error)
}

// pollAdapter stands where the poll plugin's queue stands: what the production sender hands to the plugin is pushed
// through the poll worker's loop (the body the sender built is remembered for the model).
type pollAdapter struct {
	w    *poll.VerifLoop
	body string
}

func (a *pollAdapter) String() string           { return "poll" }
func (a *pollAdapter) Type() string             { return "poll" }
func (a *pollAdapter) Start(chan<- error) error { return nil }
func (a *pollAdapter) Stop() error              { return nil }
func (a *pollAdapter) Enqueue(m *aio.Message) bool {
	a.body = string(m.Body)
	a.w.Send(m)
	return true
}

// mconn is the reference model of one listener connection.
type mconn struct {
	group, id string
	real      *poll.VerifConn
	live      bool     // registered (the model's view)
	buf       []string // bodies accepted and not yet drained
	cap       int
	closed    bool // the model expects the channel to be closed
}

func isClosedEmpty(ch chan []byte) (closed bool, got []string) {
	for {
		select {
		case b, ok := <-ch:
			if !ok {
				return true, got
			}
			got = append(got, string(b))
		default:
			return false, got
		}
	}
}

// TestC18 — deterministic, model-based part: the production registry and PollWorker.Process are driven
// single-threaded against a reference model of live listeners with FIFO buffers.
func TestC18(t *testing.T) {
	stats := core.NewStats("C18", "(a) rapid state machine over connect(group,id,buffer) / disconnect / reconnect-same-id / drain / send(group, id|none, invoke|resume|notify) on the production PollWorker loop (Start) on harness-owned connect/disconnect/message channels, one operation at a time with a barrier message between operations, with connection limits and buffer sizes down to 1; reference model: registry of live listeners with FIFO buffers. Oracle per send: Done(true) => exactly one live listener's buffer grew by exactly this body, it is in the addressed group, it is the addressed id if that id is connected, for notifications only that id; Done(false) => no buffer changed; replaced, disconnected and over-limit connections are closed exactly once (a double close panics), totals conserved. (b) wire level: the real plugin with real SSE clients, churn during delivery: every body is read at most once over all clients, only in its group, every Done(true) body is read by a client. Non-trivial: a send that follows a disconnect/reconnect in its group, hits a full buffer, or addresses an id that is not connected. Distinct = operation sequence shape.")
	defer stats.Write()
	rapid.Check(t, func(rt *rapid.T) {
		stats.Eval()
		m := metrics.New(prometheus.NewRegistry())
		max := rapid.SampledFrom([]int{1, 2, 3, 100}).Draw(rt, "max")
		w := poll.NewVerifLoop(max, m)
		stopped := false
		defer func() {
			if !stopped {
				w.Stop()
			}
		}()
		adapter := &pollAdapter{w: w}
		sw := sender.NewVerifWorker(cqStub{}, m, map[string]*receiver.Recv{}, adapter)
		var conns []*mconn
		seq := 0
		var trace []string
		nontrivial := false
		churn := map[string]bool{}
		fail := func(f string, a ...any) {
			msg := fmt.Sprintf(f, a...)
			core.SaveFailure("last", map[string]any{"violation": msg, "trace": trace, "max": max})
			rt.Fatalf("VIOLATION C18 %s\n%s", msg, strings.Join(trace, "\n"))
		}
		live := func(group string) []*mconn {
			var out []*mconn
			for _, c := range conns {
				if c.live && c.group == group {
					out = append(out, c)
				}
			}
			return out
		}
		nlive := func() int {
			n := 0
			for _, c := range conns {
				if c.live {
					n++
				}
			}
			return n
		}
		// audit compares every connection the harness ever created with the model
		audit := func(when string) {
			for i, c := range conns {
				closed, got := isClosedEmpty(c.real.Chan())
				want := c.buf
				c.buf = nil
				if strings.Join(got, "|") != strings.Join(want, "|") {
					fail("%s: connection #%d (%s/%s) holds %q, the model expects %q", when, i, c.group, c.id, got, want)
				}
				if closed != c.closed {
					fail("%s: connection #%d (%s/%s) closed=%v, the model expects closed=%v", when, i, c.group, c.id, closed, c.closed)
				}
			}
			if w.Len() != nlive() {
				fail("%s: registry counts %d connections, the model %d", when, w.Len(), nlive())
			}
		}
		groups := []string{"g1", "g2"}
		ids := []string{"a", "b", "", "a/b"}
		rt.Repeat(map[string]func(*rapid.T){
			"connect": func(rt *rapid.T) {
				g, id := rapid.SampledFrom(groups).Draw(rt, "group"), rapid.SampledFrom(ids).Draw(rt, "id")
				buf := rapid.SampledFrom([]int{1, 1, 2, 5}).Draw(rt, "buffer")
				trace = append(trace, fmt.Sprintf("connect %s/%s buffer=%d", g, id, buf))
				// model: the same (group,id) is replaced; then the limit decides
				for _, c := range conns {
					if c.live && c.group == g && c.id == id {
						c.live, c.closed = false, true
						churn[g] = true
						break
					}
				}
				nc := &mconn{group: g, id: id, cap: buf}
				if nlive() >= max {
					nc.closed = true
				} else {
					nc.live = true
				}
				var p any
				func() {
					defer func() { p = recover() }()
					nc.real = w.Connect(g, id, buf)
				}()
				if p != nil {
					fail("connect %s/%s panicked: %v", g, id, p)
				}
				conns = append(conns, nc)
				audit("after connect")
			},
			"disconnect": func(rt *rapid.T) {
				if len(conns) == 0 {
					rt.Skip("no connection")
				}
				c := conns[rapid.IntRange(0, len(conns)-1).Draw(rt, "conn")]
				trace = append(trace, fmt.Sprintf("disconnect %s/%s live=%v", c.group, c.id, c.live))
				if c.live {
					c.live, c.closed = false, true
					churn[c.group] = true
				}
				var p any
				func() {
					defer func() { p = recover() }()
					w.Disconnect(c.real)
				}()
				if p != nil {
					fail("disconnect of %s/%s (live=%v) panicked: %v", c.group, c.id, c.live, p)
				}
				audit("after disconnect")
			},
			"drain": func(rt *rapid.T) {
				audit("drain")
			},
			"send-malformed": func(rt *rapid.T) {
				// receiver data of every JSON shape (a physical receiver's data is client supplied): never a crash,
				// never a delivery to a listener it does not name
				data := rapid.SampledFrom([]string{`null`, `[]`, `"g1"`, `{}`, `{"group":1}`, `{"group":null}`, `{"id":"a"}`, `{"group":"g1","id":5}`, ``, `{`}).Draw(rt, "data")
				seq++
				body := fmt.Sprintf("x%d", seq)
				trace = append(trace, fmt.Sprintf("send-malformed data=%s body=%s", data, body))
				done, ok := 0, false
				var p any
				func() {
					defer func() { p = recover() }()
					w.Send(&aio.Message{Type: message.Invoke, Data: []byte(data), Body: []byte(body), Done: func(s bool, e error) { done++; ok = s }})
				}()
				if p != nil {
					fail("a message with receiver data %s crashed the transport: %v", data, p)
				}
				if done != 1 {
					fail("Done called %d times for malformed data %s", done, data)
				}
				if ok {
					// it named no group: nobody may have received it, except listeners of the group "" (none exist here)
					fail("a message with receiver data %s was reported delivered", data)
				}
				nontrivial = true
				audit("after send-malformed")
			},
			"send": func(rt *rapid.T) {
				g := rapid.SampledFrom(append(groups, "g3")).Draw(rt, "group")
				id := rapid.SampledFrom(append(ids, "zz")).Draw(rt, "id")
				typ := rapid.SampledFrom([]message.Type{message.Invoke, message.Resume, message.Notify}).Draw(rt, "type")
				seq++
				body := fmt.Sprintf("m%d", seq)
				data := map[string]string{"group": g}
				if id != "" {
					data["id"] = id
				}
				db, _ := json.Marshal(data)
				trace = append(trace, fmt.Sprintf("send %s to %s/%s body=%s", typ, g, id, body))
				_ = receiver.Recv{}
				// snapshot buffers (without draining): lengths
				before := map[*mconn]int{}
				for _, c := range conns {
					before[c] = len(c.real.Chan())
				}
				done, ok := 0, false
				var derr error
				var p any
				// half of the messages come the way production messages come: through the production sender worker
				// (receiver resolution, body, message type), whose plugin slot is wired to this poll worker
				viaSender := rapid.Bool().Draw(rt, "viaSender")
				func() {
					defer func() { p = recover() }()
					if !viaSender {
						w.Send(&aio.Message{Type: typ, Data: db, Body: []byte(body), Done: func(s bool, e error) { done++; ok, derr = s, e }})
						return
					}
					recv := []byte(fmt.Sprintf(`{"type":"poll","data":%s}`, db))
					if rapid.Bool().Draw(rt, "logical") {
						addr := "poll://" + g
						if id != "" {
							addr += "/" + id
						}
						recv, _ = json.Marshal(addr)
					}
					sub := &t_aio.SenderSubmission{Task: &task.Task{Id: body, Counter: 1, Recv: recv, Mesg: &message.Mesg{Type: typ, Root: "r", Leaf: "l"}}, ClaimHref: "c", CompleteHref: "d", HeartbeatHref: "h"}
					if typ == message.Notify {
						sub.Promise = &promise.Promise{Id: "r", State: promise.Resolved}
					}
					adapter.body = ""
					sw.Process(&bus.SQE[t_aio.Submission, t_aio.Completion]{Id: body, Submission: &t_aio.Submission{Kind: t_aio.Sender, Tags: map[string]string{"id": body}, Sender: sub},
						Callback: func(c *t_aio.Completion, e error) {
							done++
							ok, derr = e == nil && c != nil && c.Sender != nil && c.Sender.Success, e
						}})
					if adapter.body == "" {
						fail("the sender did not hand the message for %s/%s to the poll transport: %v", g, id, derr)
					}
					body = adapter.body
				}()
				if p != nil {
					fail("send panicked: %v", p)
				}
				if done != 1 {
					fail("Done called %d times", done)
				}
				var grew []*mconn
				for _, c := range conns {
					if !c.closed && len(c.real.Chan()) != before[c] {
						grew = append(grew, c)
					}
				}
				candidates := live(g)
				var exact *mconn
				for _, c := range candidates {
					if c.id == id && id != "" {
						exact = c
					}
				}
				if !ok {
					if len(grew) != 0 {
						fail("send reported not delivered (%v) but a buffer changed", derr)
					}
					// refusal must be justified: no listener, notify without exact id, or the chosen buffer full
					full := false
					for _, c := range candidates {
						if before[c] >= c.cap {
							full = true
						}
					}
					switch {
					case len(candidates) == 0:
					case typ == message.Notify && exact == nil:
					case exact != nil && before[exact] >= exact.cap:
					case exact == nil && full:
					default:
						fail("send to %s/%s (%s) was refused (%v) although a listener with free buffer was available", g, id, typ, derr)
					}
					if len(candidates) > 0 {
						nontrivial = true
					}
					return
				}
				if len(grew) != 1 {
					fail("send reported delivered but %d buffers changed", len(grew))
				}
				c := grew[0]
				if !c.live || c.group != g {
					fail("message for group %s handed to %s/%s (live=%v)", g, c.group, c.id, c.live)
				}
				if exact != nil && c != exact {
					fail("message addressed to connected id %s/%s handed to %s/%s", g, id, c.group, c.id)
				}
				if typ == message.Notify && c.id != id {
					fail("notification for %s/%s handed to %s/%s", g, id, c.group, c.id)
				}
				c.buf = append(c.buf, body)
				if churn[g] || id == "zz" {
					nontrivial = true
				}
			},
		})
		audit("end")
		// shutdown: the loop closes every remaining connection (exactly once: a double close panics the process)
		w.Stop()
		stopped = true
		for i, c := range conns {
			closed, _ := isClosedEmpty(c.real.Chan())
			if !closed {
				fail("after shutdown connection #%d (%s/%s) is still open", i, c.group, c.id)
			}
		}
		if nontrivial {
			stats.Nontriv(strings.Join(shape(trace), ","), map[string]any{"max_connections": max, "operations": trace})
		}
		stats.Class(fmt.Sprintf("ops=%d", min(len(trace)/10*10, 50)))
	})
	if core.Env("VERIF_WIRE", "1") == "1" {
		wire(t, stats)
	}
}

func shape(trace []string) []string {
	out := make([]string, len(trace))
	for i, l := range trace {
		out[i] = strings.SplitN(l, " body=", 2)[0]
	}
	return out
}

// wire exercises the real plugin over HTTP/SSE with concurrent churn. Time-outs make the run inconclusive
// (reported as a class), never a violation.
func wire(t *testing.T, stats *core.Stats) {
	m := metrics.New(prometheus.NewRegistry())
	p, err := poll.New(nil, m, &poll.Config{Size: 100, BufferSize: 4, MaxConnections: 8, Addr: "127.0.0.1:0", Timeout: 2 * time.Second})
	if err != nil {
		t.Fatalf("poll.New: %v", err)
	}
	errs := make(chan error, 1)
	if err := p.Start(errs); err != nil {
		t.Fatal(err)
	}
	addr := p.Addr()
	var mu sync.Mutex
	read := map[string][]string{} // body -> clients (group/id#n) that read it
	var wg sync.WaitGroup
	client := func(ctx context.Context, group, id string, n int) {
		defer wg.Done()
		req, _ := http.NewRequestWithContext(ctx, "GET", fmt.Sprintf("http://%s/%s/%s", addr, group, id), nil)
		resp, err := http.DefaultClient.Do(req)
		if err != nil {
			return
		}
		defer resp.Body.Close()
		sc := bufio.NewScanner(resp.Body)
		for sc.Scan() {
			if l := sc.Text(); strings.HasPrefix(l, "data: ") {
				mu.Lock()
				read[strings.TrimPrefix(l, "data: ")] = append(read[strings.TrimPrefix(l, "data: ")], fmt.Sprintf("%s/%s#%d", group, id, n))
				mu.Unlock()
			}
		}
	}
	type cl struct{ cancel context.CancelFunc }
	clients := map[string]cl{}
	n := 0
	start := func(group, id string) {
		ctx, cancel := context.WithCancel(context.Background())
		n++
		wg.Add(1)
		go client(ctx, group, id, n)
		clients[group+"/"+id] = cl{cancel}
	}
	for _, g := range []string{"g1", "g2"} {
		for _, id := range []string{"a", "b", "c"} {
			start(g, id)
		}
	}
	time.Sleep(150 * time.Millisecond)
	delivered := map[string]string{} // body -> group
	var dmu sync.Mutex
	pending := sync.WaitGroup{}
	for i := 0; i < 300; i++ {
		g := []string{"g1", "g2"}[i%2]
		id := []string{"a", "b", "c", ""}[i%4]
		body := fmt.Sprintf(`{"n":%d,"g":"%s"}`, i, g)
		data, _ := json.Marshal(map[string]string{"group": g, "id": id})
		pending.Add(1)
		okq := p.Enqueue(&aio.Message{Type: message.Invoke, Data: data, Body: []byte(body), Done: func(s bool, e error) {
			if s {
				dmu.Lock()
				delivered[body] = g
				dmu.Unlock()
			}
			pending.Done()
		}})
		if !okq {
			pending.Done()
		}
		if i%25 == 7 { // churn: reconnect one id (the new connection replaces the old one)
			start(g, "a")
		}
		if i%40 == 13 {
			if c, ok := clients[g+"/b"]; ok {
				c.cancel()
				delete(clients, g+"/b")
			}
		}
		if i%10 == 0 {
			time.Sleep(5 * time.Millisecond)
		}
	}
	waitDone := make(chan struct{})
	go func() { pending.Wait(); close(waitDone) }()
	select {
	case <-waitDone:
	case <-time.After(20 * time.Second):
		stats.Class("wire-inconclusive:timeout-waiting-for-Done")
		return
	}
	time.Sleep(300 * time.Millisecond)
	stopped := make(chan error, 1)
	go func() { stopped <- p.Stop() }()
	select {
	case <-stopped:
	case <-time.After(15 * time.Second):
		stats.Class("wire-inconclusive:Stop-timeout")
		return
	}
	for _, c := range clients {
		c.cancel()
	}
	wg.Wait()
	mu.Lock()
	defer mu.Unlock()
	for body, who := range read {
		stats.Eval()
		if len(who) > 1 {
			core.SaveFailure("last", map[string]any{"violation": "body read by several clients", "body": body, "clients": who})
			t.Fatalf("VIOLATION C18 wire: body %s was read by %d clients %v", body, len(who), who)
		}
		if g, ok := delivered[body]; !ok {
			t.Fatalf("VIOLATION C18 wire: body %s was read by %v but never reported delivered", body, who)
		} else if !strings.HasPrefix(who[0], g+"/") {
			t.Fatalf("VIOLATION C18 wire: body %s for group %s was read by %s", body, g, who[0])
		}
	}
	lost := 0
	for body := range delivered {
		if len(read[body]) == 0 {
			lost++ // accepted into a connection buffer whose client was cancelled before reading: allowed by the statement
		}
	}
	stats.Class("wire-run")
	stats.ClassN("wire-bodies-read", len(read))
	stats.ClassN("wire-bodies-accepted-but-connection-closed-before-read", lost)
}
