package sim

import (
	"fmt"
	"strings"
	"testing"
	"time"

	"github.com/resonatehq/resonate/internal/kernel/t_api"
)

func faultsLabel(s *Sim, labels []string) []string {
	if len(s.Restarts) > 0 {
		labels = append(labels, "crash")
	}
	for _, tx := range s.Txs {
		if tx.Fault != "" {
			labels = append(labels, "after-commit-fault")
			break
		}
	}
	for _, r := range s.Reqs {
		if r.Done && r.Err != nil {
			labels = append(labels, "request-failed")
			break
		}
	}
	return labels
}

func withFaults(d D, c *Case, faultOneIn, crashOneIn int) {
	if d.OneIn(faultOneIn, "faults") {
		c.Prof.FailBefore, c.Prof.FailAfter = 12, 10
		if d.Bool("commitfaults") {
			c.Prof.CommitFail = 15 // natural store failure: the database refuses the COMMIT
		}
	}
	if d.OneIn(crashOneIn, "crashes") {
		c.CrashBetween = 8
		c.Prof.Crash = 40
	}
}

// promiseCompletions lists, per promise id, the transactions in which it left pending.
func promiseCompletions(s *Sim) map[string][]*TxRec {
	out := map[string][]*TxRec{}
	for _, tx := range s.Txs {
		for _, c := range tx.Diff {
			if c.Table == "promises" && c.Before != nil && c.After != nil && c.Before.I("state") == pPending && c.After.I("state") != pPending {
				out[c.Key] = append(out[c.Key], tx)
			}
		}
	}
	return out
}

// ---------------------------------------------------------------------------
// C01 — completion is write-once, creation fields immutable

func TestC01(t *testing.T) {
	RunCampaign(t, Campaign{
		Prop:  "C01",
		Rule:  "rapid draws config, a timeline of create/complete/read/search/callback/subscription/claim/create-with-task requests on 3 shared ids (conflicting states, values, keys), clock steps landing on time-outs, and the schedule (permutation, holds, batch cuts, before/after-commit faults, crash/restart). Non-trivial: one id receives >=2 completion attempts (or a completion and a time-out) whose request windows overlap. Distinct = distinct shape signature.",
		Fatal: []string{"C01"},
		Build: func(d D) *Case {
			g := DefaultGen(d)
			g.W = map[string]int{"CreatePromise": 3, "CreatePromiseAndTask": 1, "CompletePromise": 7, "ReadPromise": 2, "SearchPromises": 2, "CreateCallback": 1, "CreateSubscription": 1, "ClaimTask": 1}
			g.TimeoutDeltas = []int64{500, 1000, 1000, 2000, 5000}
			c := &Case{Cfg: GenConfig(d, 8), Prof: Profile{Bg: []string{"TimeoutPromises", "EnqueueTasks", "TimeoutTasks"}, Permute: true, Hold: 5, Cut: 2, SendFail: 6},
				Gen: g, Steps: [2]int{3, 12}, MaxRq: 4, Dts: []int64{0, 0, 0, 0, 1, 500, 1000, -1, -1, -2, -3}, Settle: 4, Prime: 3}
			withFaults(d, c, 3, 4)
			return c
		},
		Classify: func(s *Sim) ([]string, bool, string) {
			var labels []string
			nontriv := false
			byPid := map[string][]*ReqRec{}
			for _, r := range s.Reqs {
				if r.Req.Kind == t_api.CompletePromise {
					byPid[r.Req.CompletePromise.Id] = append(byPid[r.Req.CompletePromise.Id], r)
				}
			}
			comps := promiseCompletions(s)
			for pid, rs := range byPid {
				for i := range rs {
					for k := i + 1; k < len(rs); k++ {
						if overlapping(rs[i], rs[k]) && (rs[i].Req.CompletePromise.State != rs[k].Req.CompletePromise.State || string(rs[i].Req.CompletePromise.Value.Data) != string(rs[k].Req.CompletePromise.Value.Data)) {
							nontriv = true
							labels = append(labels, "race:complete-vs-complete")
						}
					}
					for _, tx := range comps[pid] {
						if tx.ReqId != rs[i].Id && rs[i].SubmitSeq < tx.Seq && (!rs[i].Done || rs[i].ResSeq > tx.Seq) {
							for _, c := range tx.Diff {
								if c.Table == "promises" && c.Key == pid && c.After.I("completed_on") == c.After.I("timeout") {
									nontriv = true
									labels = append(labels, "race:complete-vs-timeout")
								}
							}
						}
					}
				}
			}
			return faultsLabel(s, labels), nontriv, ShapeSignature(s)
		},
	})
}

// ---------------------------------------------------------------------------
// C03 — create/complete idempotent under retries

func TestC03(t *testing.T) {
	RunCampaign(t, Campaign{
		Prop:  "C03",
		Rule:  "rapid draws histories of create / create-with-task / complete requests on 1-2 ids with key in {absent,k1,k2}, strict flag, requested state, timing around the timeout, plus retries: an identical copy of an earlier request re-submitted after its response, after its response was lost to an injected failure, racing the original in the same tick, or after a crash. Oracle: status table R1-R3 written from the statement, justified by some committed state inside the request window, and at most one creation/completion effect and one invocation task per id. Non-trivial: the history contains an exact retry with a non-absent key, a retry after a lost response, or a same-tick race of identical requests.",
		Fatal: []string{"C03"},
		// "no repeat ... ever changes the promise (other than letting an overdue time-out take effect)": a time-out that
		// takes effect through a create or complete request must be exactly the time-out (state, empty value, no
		// completion key, completion time = timeout), in the store and in the response
		Build: func(d D) *Case {
			g := DefaultGen(d)
			g.Pids = []string{"p1", "p2"}[:d.Int(1, 2, "npids")]
			g.W = map[string]int{"CreatePromise": 4, "CreatePromiseAndTask": 2, "CompletePromise": 6, "ReadPromise": 1}
			g.TimeoutDeltas = []int64{500, 1000, 1000, 2000, 4000}
			c := &Case{Cfg: GenConfig(d, 8), Prof: Profile{Bg: []string{"TimeoutPromises"}, Permute: true, Hold: 6, Cut: 2}, Gen: g, Steps: [2]int{3, 12}, MaxRq: 2,
				Dts: []int64{0, 0, 0, 1, 500, 1000, -1, -2, -3}, Settle: 3}
			if d.Bool("nosweep") {
				c.Prof.Bg = nil
			}
			withFaults(d, c, 2, 5)
			c.PerStep = func(s *Sim, step int) {
				// retries: identical copies of earlier create/complete requests
				for n := d.Int(0, 2, "nretry"); n > 0 && len(s.Reqs) > 0; n-- {
					o := s.Reqs[d.Int(0, len(s.Reqs)-1, "retryof")]
					if o.Req.Kind == t_api.ReadPromise {
						continue
					}
					cp := CloneReq(o.Req)
					s.Submit(cp)
				}
			}
			return c
		},
		Classify: func(s *Sim) ([]string, bool, string) {
			var labels []string
			nontriv := false
			seen := map[string][]*ReqRec{}
			for _, r := range s.Reqs {
				if r.Req.Kind == t_api.ReadPromise {
					continue
				}
				k := ReqString(r.Req)
				for _, o := range seen[k] {
					hasKey := strings.Contains(k, "idempotencyKey=k")
					switch {
					case o.Done && o.Err != nil:
						labels = append(labels, "retry-after-lost-response")
						nontriv = true
					case o.Lost:
						labels = append(labels, "retry-after-crash")
						nontriv = true
					case overlapping(o, r):
						labels = append(labels, "retry-racing-original")
						nontriv = true
					case hasKey:
						labels = append(labels, "retry-with-key")
						nontriv = true
					default:
						labels = append(labels, "retry-without-key")
					}
				}
				seen[k] = append(seen[k], r)
			}
			return faultsLabel(s, labels), nontriv, ShapeSignature(s)
		},
		Extra: func(s *Sim) []Violation {
			var vs []Violation
			for _, v := range Judge(s) {
				if v.Prop == "C04" && v.Code == "O3" {
					vs = append(vs, Violation{"C03", "R4", "", "a request changed the promise beyond letting its time-out take effect: " + v.Msg})
				}
			}
			created, completed := map[string]int{}, map[string]int{}
			for _, tx := range s.Txs {
				for _, c := range tx.Diff {
					if c.Table == "promises" && c.Before == nil {
						created[c.Key]++
					}
					if c.Table == "promises" && c.Before != nil && c.After != nil && c.Before.I("state") != c.After.I("state") {
						completed[c.Key]++
					}
				}
			}
			for id, n := range created {
				if n > 1 {
					vs = append(vs, Violation{"C03", "E1", "", fmt.Sprintf("%d creations took effect for promise %s", n, id)})
				}
			}
			for id, n := range completed {
				if n > 1 {
					vs = append(vs, Violation{"C03", "E1", "", fmt.Sprintf("%d completions took effect for promise %s", n, id)})
				}
			}
			final := s.Snaps[s.CurSnap()]
			inv := map[string]int{}
			for _, id := range final.Keys("tasks") {
				tk := final["tasks"][id]
				if mesgType(tk) == "invoke" {
					inv[tk.S("root_promise_id")]++
				}
			}
			for id, n := range inv {
				if n > 1 {
					vs = append(vs, Violation{"C03", "E2", "", fmt.Sprintf("%d invocation tasks exist for promise %s", n, id)})
				}
			}
			// a repeat never changes the promise: every promise change is an insert, a time-out, or the one completion (C01-I2/I3 restated for this check)
			for _, v := range Judge(s) {
				if v.Prop == "C01" && (v.Code == "I2" || v.Code == "I3") {
					v.Prop = "C03"
					vs = append(vs, v)
				}
			}
			return vs
		},
	})
}

// ---------------------------------------------------------------------------
// C04 — time-outs are exact

func TestC04(t *testing.T) {
	RunCampaign(t, Campaign{
		Prop:  "C04",
		Rule:  "rapid draws promises whose time-outs lie on the tick grid, clock steps that land exactly on / 1 ms before / 1 ms after the next stored deadline, read/create/complete/search requests at those instants, the background sweep present or absent and racing them in one flush, promise batch sizes 1..100, promises created with a past time-out. Oracle O1-O4 from the statement. Non-trivial: a request is answered at a tick equal to the time-out of the promise it names, or a lazy time-out, an explicit completion and the sweep touch one promise in overlapping windows. Known finding F13 (create answers 201 PENDING for an already overdue promise) is classified, counted and reported as KNOWN-FINDING.",
		Fatal: []string{"C04"},
		Build: func(d D) *Case {
			g := DefaultGen(d)
			g.W = map[string]int{"CreatePromise": 4, "CompletePromise": 4, "ReadPromise": 4, "SearchPromises": 2, "CreateSubscription": 1}
			g.TimeoutDeltas = []int64{-1000, 0, 1, 500, 1000, 1000, 2000, 2000}
			g.PastTimeouts = true
			bg := []string{"TimeoutPromises"}
			if d.OneIn(3, "nosweep") {
				bg = nil
			}
			c := &Case{Cfg: GenConfig(d, 8), Prof: Profile{Bg: bg, Permute: true, Hold: 5, Cut: 2}, Gen: g, Steps: [2]int{3, 12}, MaxRq: 4,
				Dts: []int64{0, 0, 1, 500, 1000, -1, -1, -1, -2, -2, -3, -3}, Settle: 3, Prime: 3}
			withFaults(d, c, 4, 8)
			return c
		},
		Classify: func(s *Sim) ([]string, bool, string) {
			var labels []string
			nontriv := false
			final := s.Snaps[s.CurSnap()]
			for _, r := range s.Reqs {
				pid := reqPromiseId(r.Req)
				if pid == "" || !r.Done {
					continue
				}
				if row, ok := final["promises"][pid]; ok {
					switch d := r.ResTick - row.I("timeout"); {
					case d == 0:
						labels = append(labels, "answered-exactly-at-timeout")
						nontriv = true
					case d == -1:
						labels = append(labels, "answered-1ms-before-timeout")
					case d == 1:
						labels = append(labels, "answered-1ms-after-timeout")
					}
				}
			}
			for pid, txs := range promiseCompletions(s) {
				for _, tx := range txs {
					path := completionPath(s, tx)
					labels = append(labels, "completed-by:"+strings.SplitN(path, ":", 2)[0])
					// three-way: another request on pid in flight during a sweep/lazy completion
					for _, r := range s.Reqs {
						if reqPromiseId(r.Req) == pid && r.Id != tx.ReqId && r.SubmitSeq < tx.Seq && (!r.Done || r.ResSeq > tx.Seq) && path != "explicit" {
							nontriv = true
							labels = append(labels, "race:request-vs-"+strings.SplitN(path, ":", 2)[0])
						}
					}
				}
			}
			return faultsLabel(s, labels), nontriv, ShapeSignature(s)
		},
	})
}

// ---------------------------------------------------------------------------
// C07 — one holder, leases honoured, stale holders fenced

func taskCase(d D) *Case {
	g := DefaultGen(d)
	g.Pids = []string{"p1", "p2"}
	g.RouteOneIn = 1
	g.W = map[string]int{"CreatePromise": 2, "CreatePromiseAndTask": 1, "CreateCallback": 2, "CompletePromise": 1, "ClaimTask": 8, "CompleteTask": 4, "HeartbeatTasks": 4, "ReadPromise": 1}
	g.TimeoutDeltas = []int64{3000, 5000, 8000, 20000}
	g.HugeTtlOneIn = 12
	c := &Case{Cfg: GenConfig(d, 8), Prof: Profile{Bg: []string{"EnqueueTasks", "TimeoutTasks", "TimeoutPromises"}, Permute: true, Hold: 6, Cut: 2, SendFail: 8},
		Gen: g, Steps: [2]int{5, 16}, MaxRq: 3, Dts: []int64{0, 1, 500, 1000, 1000, 1000, -1, -1, -2, -3, 2000}, Settle: 6, Prime: 2, ExtraTicks: 4}
	// short enqueue delay / signal timeout so that dispatch and lease sweeps happen inside the timeline
	c.Cfg.SignalTimeout = time.Second
	c.Cfg.TaskEnqueueDelay = time.Second * []time.Duration{1, 1, 2, 3}[d.Int(0, 3, "ted")]
	return c
}

func TestC07(t *testing.T) {
	RunCampaign(t, Campaign{
		Prop:  "C07",
		Rule:  "rapid draws routed promises (invoke tasks), callbacks (resume tasks), create-with-task, and claim/complete/heartbeat requests from 2 workers with current, stale (c-1) and future (c+1) counters taken from dispatched messages, ttl in {0,1s,2s,3s}, clock steps landing on lease ends, lease sweeps, dispatch cycles, promise completion, after-commit faults followed by retries. Oracle T1-T6 from the statement over per-transaction snapshots and responses. Non-trivial: two workers contend for one task in overlapping windows, or a stale-counter claim/complete follows a lease reclaim.",
		Fatal: []string{"C07"},
		Build: func(d D) *Case {
			c := taskCase(d)
			withFaults(d, c, 3, 8)
			return c
		},
		Classify: func(s *Sim) ([]string, bool, string) {
			var labels []string
			nontriv := false
			byTask := map[string][]*ReqRec{}
			for _, r := range s.Reqs {
				if r.Req.Kind == t_api.ClaimTask {
					byTask[r.Req.ClaimTask.Id] = append(byTask[r.Req.ClaimTask.Id], r)
				}
			}
			for _, rs := range byTask {
				for i := range rs {
					for k := i + 1; k < len(rs); k++ {
						if overlapping(rs[i], rs[k]) && rs[i].Req.ClaimTask.ProcessId != rs[k].Req.ClaimTask.ProcessId {
							nontriv = true
							labels = append(labels, "contention:two-workers-one-task")
						}
					}
				}
			}
			reclaimed := map[string]int64{} // task -> counter after reclaim
			for _, tx := range s.Txs {
				for _, c := range tx.Diff {
					if c.Table != "tasks" || c.Before == nil || c.After == nil {
						continue
					}
					bs, as := c.Before.I("state"), c.After.I("state")
					switch {
					case bs != tClaimed && as == tClaimed:
						labels = append(labels, "claim-ok")
					case bs == tClaimed && as == tInit:
						labels = append(labels, "lease-reclaimed")
						reclaimed[c.Key] = c.After.I("counter")
					case bs == tClaimed && as == tClaimed:
						labels = append(labels, "heartbeat-extended")
					case bs == tClaimed && as == tDone:
						labels = append(labels, "completed")
					}
				}
				for _, r := range s.Reqs {
					if r.Id != tx.ReqId {
						continue
					}
					if r.Req.Kind == t_api.ClaimTask {
						if c, ok := reclaimed[r.Req.ClaimTask.Id]; ok && int64(r.Req.ClaimTask.Counter) < c {
							nontriv = true
							labels = append(labels, "stale-counter-claim-after-reclaim")
						}
					}
					if r.Req.Kind == t_api.CompleteTask {
						if c, ok := reclaimed[r.Req.CompleteTask.Id]; ok && int64(r.Req.CompleteTask.Counter) < c {
							nontriv = true
							labels = append(labels, "stale-counter-complete-after-reclaim")
						}
					}
				}
			}
			return faultsLabel(s, dedup(labels)), nontriv, ShapeSignature(s)
		},
	})
}

func dedup(xs []string) []string {
	seen := map[string]bool{}
	var out []string
	for _, x := range xs {
		if !seen[x] {
			seen[x] = true
			out = append(out, x)
		}
	}
	return out
}

// ---------------------------------------------------------------------------
// C08 — tasks born/finished with their promise; dispatch discipline

func TestC08(t *testing.T) {
	RunCampaign(t, Campaign{
		Prop:  "C08",
		Rule:  "rapid draws routed/unrouted promises (logical, URL and JSON routing tags), create-with-task, callbacks and subscriptions, completions, claims; dispatch cycles through the real sender worker with every hand-off outcome (success/refused/error/queue full), router failures, task batch sizes 1..100, lease sweeps, faults. Oracle B1-B6 from the statement. Non-trivial: a dispatch cycle with >=2 candidate tasks of one root promise, a failed hand-off followed by a later retry, a notification hand-off, or a router/store failure on a routed create.",
		Fatal: []string{"C08"},
		Build: func(d D) *Case {
			c := taskCase(d)
			c.Gen.Pids = []string{"p1", "p2", "r"}
			c.Gen.RouteOneIn = 2
			c.Gen.W = map[string]int{"CreatePromise": 4, "CreatePromiseAndTask": 2, "CreateCallback": 4, "CreateSubscription": 3, "CompletePromise": 4, "ClaimTask": 4, "CompleteTask": 2, "HeartbeatTasks": 1}
			c.Prof.SendFail = 4
			c.Prof.SendLose = 12
			if d.OneIn(3, "nopromisesweep") {
				// without the promise sweep overdue promises keep their (overdue, still init) tasks: the dispatch cycle
				// meets records it must skip next to records it must hand off
				c.Prof.Bg = []string{"EnqueueTasks", "TimeoutTasks"}
				c.Gen.TimeoutDeltas = []int64{1000, 2000, 3000, 20000}
			}
			if d.OneIn(3, "routerfail") {
				c.Prof.RouterFail = 6
			}
			withFaults(d, c, 3, 8)
			return c
		},
		Classify: func(s *Sim) ([]string, bool, string) {
			var labels []string
			nontriv := false
			failed := map[string]bool{}
			for _, sd := range s.Sends {
				labels = append(labels, "handoff:"+sd.Outcome)
				if sd.Sub.Task.Mesg != nil && sd.Sub.Task.Mesg.Type == "notify" {
					labels = append(labels, "handoff-notify")
					nontriv = true
				}
				if sd.Outcome != "success" {
					failed[sd.Sub.Task.Id] = true
				} else if failed[sd.Sub.Task.Id] {
					labels = append(labels, "retry-after-failed-handoff")
					nontriv = true
				}
			}
			for _, tx := range s.Txs {
				if len(tx.Cmds) == 1 && tx.Cmds[0].Kind.String() == "ReadEnqueueableTasks" {
					roots := map[string]int{}
					for _, id := range tx.Pre.Keys("tasks") {
						if r := tx.Pre["tasks"][id]; r.I("state") == tInit {
							roots[r.S("root_promise_id")]++
						}
					}
					for _, n := range roots {
						if n >= 2 {
							labels = append(labels, "cycle-with-2-candidates-of-one-root")
							nontriv = true
						}
					}
				}
			}
			for _, tx := range s.Txs {
				if strings.HasPrefix(tx.ReqId, "EnqueueTasks:") && len(tx.Diff) > 0 {
					skipped, other := 0, 0
					for _, c := range tx.Diff {
						if c.Table == "tasks" && c.After != nil && c.After.I("state") == tTimedout {
							skipped++
						} else if c.Table == "tasks" {
							other++
						}
					}
					if skipped > 0 && other > 0 {
						labels = append(labels, "cycle-skipping-an-overdue-task-next-to-handoffs")
						nontriv = true
					} else if skipped > 0 {
						labels = append(labels, "cycle-skipping-an-overdue-task")
					}
				}
			}
			if len(s.routerFails) > 0 {
				labels = append(labels, "router-failure")
				nontriv = true
			}
			return faultsLabel(s, dedup(labels)), nontriv, ShapeSignature(s)
		},
	})
}

// ---------------------------------------------------------------------------
// C09 — locks

func TestC09(t *testing.T) {
	RunCampaign(t, Campaign{
		Prop:  "C09",
		Rule:  "rapid draws acquire/release/heartbeat requests of 3 executions x 2 processes on 2 resources, ttl in {0,1s,2s,3s}, clock steps landing on lease ends, the expiry sweep racing them, faults and crashes. Oracle L1-L5: reference decision per response evaluated on the pre-state of the request's transaction, and every change of the locks table must be the holder's release / re-acquire, its process's heartbeat (lease = clock + ttl), or an expiry at a tick >= lease end. Non-trivial: >=2 executions contend for one resource inside a lease, or a request is handled exactly at the lease end.",
		Fatal: []string{"C09"},
		Build: func(d D) *Case {
			g := DefaultGen(d)
			g.W = map[string]int{"AcquireLock": 6, "ReleaseLock": 3, "HeartbeatLocks": 3}
			g.HugeTtlOneIn = 8
			c := &Case{Cfg: GenConfig(d, 8), Prof: Profile{Bg: []string{"TimeoutLocks"}, Permute: true, Hold: 6, Cut: 2}, Gen: g, Steps: [2]int{4, 16}, MaxRq: 4,
				Dts: []int64{0, 0, 1, 500, 1000, -1, -1, -2, -3}, Settle: 2}
			c.Cfg.SignalTimeout = time.Second
			if d.OneIn(4, "nosweep") {
				c.Prof.Bg = nil
			}
			withFaults(d, c, 3, 8)
			return c
		},
		Classify: func(s *Sim) ([]string, bool, string) {
			var labels []string
			nontriv := false
			for _, r := range s.Reqs {
				if !r.Done || r.Err != nil {
					continue
				}
				switch r.Req.Kind {
				case t_api.AcquireLock:
					labels = append(labels, fmt.Sprintf("acquire:%d", r.Res.AcquireLock.Status))
					if r.Res.AcquireLock.Status == t_api.StatusLockAlreadyAcquired {
						nontriv = true
					}
				case t_api.ReleaseLock:
					labels = append(labels, fmt.Sprintf("release:%d", r.Res.ReleaseLock.Status))
				case t_api.HeartbeatLocks:
					if r.Res.HeartbeatLocks.LocksAffected > 0 {
						labels = append(labels, "heartbeat-extended")
					}
				}
			}
			for _, tx := range s.Txs {
				for _, c := range tx.Diff {
					if c.Table == "locks" && c.Before != nil && c.After == nil && strings.HasPrefix(tx.ReqId, "TimeoutLocks") {
						labels = append(labels, "expired-by-sweep")
					}
				}
				for _, id := range tx.Pre.Keys("locks") {
					if tx.Pre["locks"][id].I("expires_at") == tx.Tick && !tx.Bg {
						labels = append(labels, "request-exactly-at-lease-end")
						nontriv = true
					}
				}
			}
			return faultsLabel(s, dedup(labels)), nontriv, ShapeSignature(s)
		},
	})
}

// ---------------------------------------------------------------------------
// C10 — schedules

func TestC10(t *testing.T) {
	RunCampaign(t, Campaign{
		Prop:  "C10",
		Rule:  "rapid draws schedules (5/6-field cron, */n, @every) with id templates, clock jumps over 0..many occurrences, schedule batch sizes 1..100, create/delete/re-create with keys racing the firing cycle, a user creating the promise id of a future occurrence first, failures and crashes mid-cycle. Oracle S1-S4: next run time only advances, at a tick >= the occurrence, to exactly the next occurrence (independent robfig/cron computation) with last = old next; the occurrence's promise (reference template expansion) exists after that very transaction, created there with the configured fields unless it existed; no scheduled promise without advance. Non-trivial: a jump over >=2 occurrences caught up one by one, or a create/delete/user-create racing a firing.",
		Fatal: []string{"C10"},
		Build: func(d D) *Case {
			g := DefaultGen(d)
			g.W = map[string]int{"CreateSchedule": 5, "DeleteSchedule": 2, "ReadSchedule": 1, "CreatePromise": 2, "ReadPromise": 1}
			g.RouteOneIn = 0
			g.SchedRouteOneIn = 4
			g.HugeTtlOneIn = 10                             // one schedule in ten configures a promise timeout of "never"
			g.Scheds = []string{"sch1", "sch2", "s&<'\"+>"} // ids are interpolated into promise ids verbatim, whatever they contain
			c := &Case{Cfg: GenConfig(d, 8), Prof: Profile{Bg: []string{"SchedulePromises", "TimeoutPromises"}, Permute: true, Hold: 6, Cut: 2}, Gen: g, Steps: [2]int{4, 14}, MaxRq: 2,
				Dts: []int64{0, 0, 1, 500, 1000, 1000, 2000, -1, -1, -2, -3, 5000, 12000}, Settle: 8}
			c.Cfg.SignalTimeout = time.Second
			withFaults(d, c, 3, 5)
			c.PerStep = func(s *Sim, step int) {
				// a user creates the promise of a future occurrence first
				if d.OneIn(6, "usercreate") {
					sn := s.Snaps[s.CurSnap()]
					for _, id := range sn.Keys("schedules") {
						row := sn["schedules"][id]
						pid := ExpandTemplate(row.S("promise_id"), id, row.I("next_run_time"))
						s.Submit(&t_api.Request{Kind: t_api.CreatePromise, CreatePromise: &t_api.CreatePromiseRequest{Id: pid, Timeout: s.Now + 60000}})
						break
					}
				}
			}
			return c
		},
		Classify: func(s *Sim) ([]string, bool, string) {
			var labels []string
			nontriv := false
			fired := map[string][]*TxRec{}
			for _, tx := range s.Txs {
				for _, c := range tx.Diff {
					if c.Table == "schedules" && c.Before != nil && c.After != nil && c.Before.I("next_run_time") != c.After.I("next_run_time") {
						fired[c.Key] = append(fired[c.Key], tx)
						labels = append(labels, "fired")
						// occurrence promise existed before (user created it first)
						pid := ExpandTemplate(c.Before.S("promise_id"), c.Key, c.Before.I("next_run_time"))
						if _, ok := tx.Pre["promises"][pid]; ok {
							labels = append(labels, "occurrence-promise-preexisting")
							nontriv = true
						}
						if tx.Tick-c.Before.I("next_run_time") >= 2000 {
							labels = append(labels, "catch-up-after-downtime")
							nontriv = true
						}
					}
					if c.Table == "schedules" && c.After == nil {
						labels = append(labels, "deleted")
					}
				}
			}
			for _, r := range s.Reqs {
				if r.Req.Kind == t_api.DeleteSchedule || r.Req.Kind == t_api.CreateSchedule {
					id := ""
					if r.Req.Kind == t_api.DeleteSchedule {
						id = r.Req.DeleteSchedule.Id
					} else {
						id = r.Req.CreateSchedule.Id
					}
					for _, tx := range fired[id] {
						// the firing cycle instance was in flight while the request was
						if r.SubmitSeq < tx.Seq && (!r.Done || r.ResSeq > tx.Seq) {
							labels = append(labels, "race:"+r.Req.Kind.String()+"-vs-firing")
							nontriv = true
						}
					}
				}
			}
			return faultsLabel(s, dedup(labels)), nontriv, ShapeSignature(s)
		},
	})
}
