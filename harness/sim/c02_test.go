package sim

import (
	"fmt"
	"os"
	"strings"
	"testing"
	"time"

	"github.com/resonatehq/resonate/internal/kernel/t_api"
	"github.com/resonatehq/resonate/internal/verif/core"
)

// explain is the C02 oracle: every request must be explained by running the real coroutine alone on
// some committed state of its window at some clock value of its window (atomic-snapshot explanation).
func explain(s *Sim, q *SeqRunner) (vs []Violation, explained, straddling, lostCAS int) {
	txsBy := map[string][]*TxRec{}
	for _, tx := range s.Txs {
		txsBy[tx.ReqId] = append(txsBy[tx.ReqId], tx)
	}
	for _, r := range s.Reqs {
		txs := txsBy[r.Id]
		var effTx *TxRec
		nEff := 0
		for _, tx := range txs {
			if len(OwnEffect(tx.Diff)) > 0 {
				nEff++
				effTx = tx
			}
			for _, res := range tx.Results {
				if res != nil && ((res.UpdatePromise != nil && res.UpdatePromise.RowsAffected == 0) || (res.UpdateTask != nil && res.UpdateTask.RowsAffected == 0) ||
					(res.CreatePromise != nil && res.CreatePromise.RowsAffected == 0) || (res.CreateCallback != nil && res.CreateCallback.RowsAffected == 0)) {
					lostCAS++
				}
			}
		}
		if nEff > 1 {
			vs = append(vs, Violation{"C02", "atomic", "", fmt.Sprintf("%s took effect in %d separate transactions", r, nEff)})
			continue
		}
		hi := r.ResTick
		if !r.Done {
			hi = s.Now
			for _, tx := range txs {
				hi = max(hi, tx.Tick)
			}
		}
		var ticks []int64
		seen := map[int64]bool{}
		add := func(v int64) {
			if !seen[v] {
				seen[v] = true
				ticks = append(ticks, v)
			}
		}
		for i := len(txs) - 1; i >= 0; i-- { // most likely witnesses first
			add(txs[i].Dispatch)
		}
		for _, t := range s.Ticks {
			if t >= r.SubmitTick && t <= hi {
				add(t)
			}
		}
		add(r.SubmitTick)
		straddle := len(ticks) > 1
		if straddle {
			straddling++
		}
		var ttls []int64
		switch r.Req.Kind {
		case t_api.AcquireLock:
			ttls = []int64{r.Req.AcquireLock.Ttl}
		case t_api.ClaimTask:
			ttls = []int64{int64(r.Req.ClaimTask.Ttl)}
		case t_api.CreatePromiseAndTask:
			ttls = []int64{int64(r.Req.CreatePromiseAndTask.Task.Ttl)}
		}
		blur := func(x string) string {
			if !straddle {
				return x
			}
			return BlurStamps(x, r.SubmitTick, hi, ttls...)
		}
		wantEff := ""
		if effTx != nil {
			wantEff = blur(NormEffect(OwnEffect(effTx.Diff)))
		}
		failed := !r.Done || r.Err != nil
		if failed && effTx == nil {
			continue // a failed request that left no trace
		}
		got := ""
		if !failed {
			got = blur(NormRes(r.Res, nil))
		}
		var cands []core.Snapshot
		if effTx != nil {
			cands = []core.Snapshot{effTx.Pre}
		} else {
			for i := len(txs) - 1; i >= 0; i-- {
				cands = append(cands, txs[i].Pre)
			}
			if len(txs) == 0 {
				cands = append(cands, s.Snaps[r.SubmitSnap])
			}
		}
		ok := false
		var lastRes, lastEff string
		try := func(cs []core.Snapshot) {
			for _, sn := range cs {
				for _, tau := range ticks {
					sres, seff, spont := q.RunSpont(sn, r.Req, tau)
					lastRes, lastEff = blur(sres), blur(seff)
					if lastEff == wantEff && (failed || lastRes == got) {
						// a time-out the explaining run let take effect must be real: the promise must actually be
						// stored as timed out by the time of the response (whoever did it). Otherwise the "explanation"
						// is a state that never existed (the request saw pending, decided time-out, lost the race).
						real := true
						at := s.Snaps[min(r.ResSnap, len(s.Snaps)-1)]
						if !r.Done {
							at = s.Snaps[len(s.Snaps)-1]
						}
						for _, id := range spont {
							row, has := at["promises"][id]
							if !has || row.I("state") == pPending || row.I("completed_on") != row.I("timeout") {
								real = false
								lastRes += fmt.Sprintf(" [needs promise %s to have timed out, stored: %s]", id, core.RowString(row))
							}
						}
						if real {
							ok = true
							return
						}
					}
				}
			}
		}
		try(cands)
		if !ok && effTx == nil && r.Done {
			var all []core.Snapshot
			for i := r.SubmitSnap; i <= r.ResSnap && i < len(s.Snaps); i++ {
				all = append(all, s.Snaps[i])
			}
			try(all)
		}
		if ok {
			explained++
			continue
		}
		key := ""
		if r.Req.Kind == t_api.ClaimTask && !failed && r.Res.ClaimTask.Status == t_api.StatusCreated {
			// is the claim itself explained when the promise payload is ignored?
			key = "C02:claim-payload-read-after-claim"
		}
		var sb strings.Builder
		for _, tx := range txs {
			fmt.Fprintf(&sb, "  tx#%d tick=%d dispatched=%d [%s] fault=%q own=%s", tx.Seq, tx.Tick-Base, tx.Dispatch-Base, tx.CmdString(), tx.Fault, core.NormChanges(OwnEffect(tx.Diff)))
		}
		what := "response"
		if failed {
			what = "partial effect of a failed request"
		}
		vs = append(vs, Violation{"C02", "unexplained", key, fmt.Sprintf("%s: no instant in its window explains the %s.\n got      %s\n got-eff  %q\n closest sequential run: %s\n seq-eff  %q\n%s", r, what, got, wantEff, lastRes, lastEff, sb.String())})
	}
	return
}

// bgExplained are the background coroutines whose write transactions are explained as atomic steps too
// (EnqueueTasks depends on hand-off outcomes and is judged by C08's statement-derived oracle instead).
var bgExplained = map[string]bool{"TimeoutTasks": true, "TimeoutPromises": true, "TimeoutLocks": true, "SchedulePromises": true}

// explainBg: "no response reflects ... an effect that is later undone". Whatever a background sweep writes
// must be what the same sweep does when it runs alone, atomically, on the state its write found (at a clock
// value of its window): a sweep that decides on the rows it read earlier and overwrites what a request has
// been acknowledged for in between (a claim, a renewed lease, a completion) undoes that request's effect.
func explainBg(s *Sim, runner func(name string) *BgRunner) (vs []Violation, explained, raced int) {
	first := map[string]*TxRec{}
	for _, tx := range s.Txs {
		if tx.Bg && first[tx.ReqId] == nil {
			first[tx.ReqId] = tx
		}
	}
	for _, tx := range s.Txs {
		if tx.Bg && bgExplained[tx.Name] {
			for _, res := range tx.Results {
				// a sweep's guarded write that found its row changed since the read (and was refused)
				if res != nil && ((res.UpdatePromise != nil && res.UpdatePromise.RowsAffected == 0) || (res.UpdateTask != nil && res.UpdateTask.RowsAffected == 0) ||
					(res.UpdateSchedule != nil && res.UpdateSchedule.RowsAffected == 0)) {
					raced++
				}
			}
		}
		if !tx.Bg || !bgExplained[tx.Name] || len(tx.Diff) == 0 {
			continue
		}
		f := first[tx.ReqId]
		lo, hi := min(f.Dispatch, tx.Dispatch), tx.Tick
		for _, c := range tx.Diff {
			// the interesting class: a row this sweep writes was changed by someone else after the sweep's read
			if b0, ok := f.Pre[c.Table][c.Key]; f != tx && ok && c.Before != nil && core.RowString(b0) != core.RowString(c.Before) {
				raced++
				break
			}
		}
		if tx.Name == "SchedulePromises" {
			// the delete race C10 allows: the cycle read a due occurrence, the schedule was deleted (or re-created)
			// before the write, the occurrence's promise is still created and the schedule row is left alone
			adv := false
			for _, c := range tx.Diff {
				if c.Table == "schedules" {
					adv = true
				}
			}
			if !adv {
				continue
			}
		}
		var ticks []int64
		seen := map[int64]bool{}
		add := func(v int64) {
			if !seen[v] {
				seen[v] = true
				ticks = append(ticks, v)
			}
		}
		add(tx.Dispatch)
		for _, t := range s.Ticks {
			if t >= lo && t <= hi {
				add(t)
			}
		}
		blur := func(x string) string {
			if len(ticks) > 1 {
				return BlurStamps(x, lo, hi)
			}
			return x
		}
		q := runner(tx.Name)
		// a sweep serves its rows independently of each other: every row it wrote must be what the sweep alone writes
		// for that row at SOME clock value of the window (not necessarily the same one for all rows of a transaction:
		// the rows' deadlines differ, and the write may be committed ticks after it was decided)
		iso := isolate(tx)
		rowOK := make([]bool, len(tx.Diff))
		rowMiss := make([]string, len(tx.Diff))
		for _, tau := range ticks {
			seq, done := q.Run(iso, tau)
			if !done {
				continue
			}
			for i, c := range tx.Diff {
				if rowOK[i] {
					continue
				}
				sc, has := seq[c.Table+"/"+c.Key]
				if has && blur(NormEffect([]core.Change{sc})) == blur(NormEffect([]core.Change{c})) {
					rowOK[i] = true
					continue
				}
				if has {
					rowMiss[i] = fmt.Sprintf("concurrent: %s\n sequential at clock %d: %s", c, tau-Base, sc)
				} else {
					rowMiss[i] = fmt.Sprintf("concurrent: %s\n sequential at clock %d: row untouched", c, tau-Base)
				}
			}
		}
		ok := true
		var miss string
		var missChange core.Change
		var misses []string
		for i, c := range tx.Diff {
			if !rowOK[i] {
				ok = false
				if miss != "" {
					misses = append(misses, miss)
				}
				miss, missChange = rowMiss[i], c
			}
		}
		if ok {
			explained++
			continue
		}
		key := ""
		if c := missChange; tx.Name == "TimeoutTasks" && c.Table == "tasks" && c.Before != nil && c.Before.I("state") == tClaimed {
			// the sweep read the task with an expired lease; before its (state, counter)-guarded write the holder's
			// heartbeat was committed and moved the lease end; the write resets the task all the same
			if r0 := f.Pre["tasks"][c.Key]; r0 != nil && r0.I("state") == tClaimed && r0.I("counter") == c.Before.I("counter") && r0.S("process_id") == c.Before.S("process_id") &&
				r0.I("expires_at") != c.Before.I("expires_at") && r0.I("expires_at") <= tx.Tick {
				key = "C02:sweep-overrides-renewed-lease"
			}
		}
		if tx.Name == "SchedulePromises" {
			// F21: the cycle read an earlier incarnation of a schedule id that was deleted and re-created (same due
			// occurrence) before the write; the (id, next_run_time) guard matches the new incarnation
			for _, c := range tx.Diff {
				if c.Table == "schedules" && c.Before != nil {
					if r0 := f.Pre["schedules"][c.Key]; r0 != nil && (r0.I("sort_id") != c.Before.I("sort_id") || r0.I("created_on") != c.Before.I("created_on")) {
						key = "C02:stale-cycle-advances-recreated-schedule"
					}
				}
			}
		}
		vs = append(vs, Violation{"C02", "bg-unexplained", key, fmt.Sprintf("background transaction tx#%d of %s [%s] (dispatched %d, committed %d) wrote what the sweep run alone on the state it found does not write at any clock value of its window %v: it overrode an intermediate change.\n %s\n earlier candidates: %s", tx.Seq, tx.ReqId, tx.CmdString(), tx.Dispatch-Base, tx.Tick-Base, rel(ticks), miss, strings.Join(misses, " || "))})
	}
	return
}

// isolate returns the pre-state of a sweep's write transaction in which every OTHER row the sweep would serve is
// made ineligible (deadline moved far away), so that the sequential sweep does the work of this transaction's row
// only (a sweep serves its rows independently; what it does for one row may then be compared exactly).
func isolate(tx *TxRec) core.Snapshot {
	const far = int64(1) << 60
	primary := map[string]bool{}
	for _, c := range tx.Cmds {
		switch {
		case c.UpdatePromise != nil:
			primary[c.UpdatePromise.Id] = true
		case c.UpdateTask != nil:
			primary[c.UpdateTask.Id] = true
		case c.UpdateSchedule != nil:
			primary[c.UpdateSchedule.Id] = true
		}
	}
	tbl, cols := "", []string{}
	switch tx.Name {
	case "TimeoutPromises":
		tbl, cols = "promises", []string{"timeout"}
	case "TimeoutTasks":
		tbl, cols = "tasks", []string{"timeout", "expires_at"}
	case "SchedulePromises":
		tbl, cols = "schedules", []string{"next_run_time"}
	default:
		return tx.Pre
	}
	if len(primary) == 0 {
		return tx.Pre
	}
	out := core.Snapshot{}
	for t, rows := range tx.Pre {
		out[t] = rows
	}
	out[tbl] = map[string]core.Row{}
	for k, row := range tx.Pre[tbl] {
		eligible := !primary[k]
		switch tbl {
		case "promises":
			eligible = eligible && row.I("state") == pPending
		case "tasks":
			eligible = eligible && row.I("state")&(tEnqueued|tClaimed) != 0
		}
		if !eligible {
			out[tbl][k] = row
			continue
		}
		n := core.Row{}
		for c, v := range row {
			n[c] = v
		}
		for _, c := range cols {
			n[c] = far
		}
		out[tbl][k] = n
	}
	return out
}

// TestC02 — API histories are linearizable to the sequential server.
func TestC02(t *testing.T) {
	dir := core.Scratch("verif-seq-")
	defer os.RemoveAll(dir)
	var runners = map[string]*SeqRunner{}
	defer func() {
		for _, q := range runners {
			q.Close()
		}
	}()
	known := core.KnownKeys()
	var bgRunners = map[string]*BgRunner{}
	defer func() {
		for _, q := range bgRunners {
			q.Close()
		}
	}()
	var nBgExplained, nBgRaced int
	var nExplained, nStraddle, nLost int
	c := Campaign{
		Prop:  "C02",
		Rule:  "rapid draws a workload of all 17 request kinds over shared ids, every kernel configuration knob, and the schedule (permutation, holds across ticks, batches, before/after-commit faults). Oracle: for every request, the real coroutine run ALONE on a committed snapshot S_j of its window (the pre-state of the transaction holding its own effect, else any state of its window) at a clock value of its window must reproduce its response and its own effect (table diff minus overdue time-outs); failed requests must have no or exactly the sequential effect; a request's effect must sit in one transaction. Non-trivial: >=2 requests on one id overlap AND a guarded write lost its compare-and-set or a submission was held across a tick. Distinct = shape signature.",
		Fatal: []string{"C02"},
		Build: func(d D) *Case {
			g := DefaultGen(d)
			g.TimeoutDeltas = []int64{500, 1000, 1000, 2000, 3000, 60000}
			c := &Case{Cfg: GenConfig(d, 8), Prof: Profile{Bg: []string{"TimeoutPromises", "TimeoutLocks", "EnqueueTasks", "TimeoutTasks"}, Permute: true, Hold: 5, Cut: 2, SendFail: 6},
				Gen: g, Steps: [2]int{3, 12}, MaxRq: 4, Dts: []int64{0, 0, 0, 1, 500, 1000, 1000, 2000, -1, -1, -2, -3}, Settle: 2, Prime: 2, ExtraTicks: 2}
			// one of several workload profiles per case: the whole API, or traffic concentrated on one family of
			// operations so that its races (lost compare-and-set, decisions straddling a deadline) are frequent
			switch d.Uni(7, "profile") {
			case 5, 6:
				// sweeps against requests: short leases and dispatch windows, a sweep every second, the clock moving in
				// whole cycles, so that claims, heartbeats and completions land between a sweep's read and its write
				g.Pids = []string{"p1", "p2"}
				g.RouteOneIn = 1
				g.RouteTags = []string{"poll://g/w", "poll://g"}
				g.ClaimTtls = []int{0, 1000, 1000, 2000}
				g.TimeoutDeltas = []int64{2000, 4000, 8000, 20000}
				g.W = map[string]int{"CreatePromise": 2, "CreatePromiseAndTask": 2, "CreateCallback": 1, "CompletePromise": 1, "ClaimTask": 8, "CompleteTask": 3, "HeartbeatTasks": 5, "ReadPromise": 1}
				c.Cfg.SignalTimeout, c.Cfg.TaskEnqueueDelay = time.Second, time.Second
				c.Prof.SendFail = 0
				c.Dts = []int64{1000, 1000, 1000, 2000, 0, -1, -3}
				c.ExtraTicks, c.Steps = 3, [2]int{6, 16}
			case 0, 1:
				g.W = map[string]int{"CreatePromise": 4, "CreatePromiseAndTask": 1, "CompletePromise": 4, "ReadPromise": 2, "SearchPromises": 1, "CreateCallback": 2, "CreateSubscription": 2,
					"AcquireLock": 2, "ReleaseLock": 1, "HeartbeatLocks": 1, "ClaimTask": 3, "CompleteTask": 2, "HeartbeatTasks": 1, "CreateSchedule": 1, "ReadSchedule": 1, "DeleteSchedule": 1, "SearchSchedules": 1}
			case 2:
				g.W = map[string]int{"CreatePromise": 3, "CreatePromiseAndTask": 1, "CompletePromise": 7, "ReadPromise": 3, "SearchPromises": 2, "CreateCallback": 1, "CreateSubscription": 1}
			case 3:
				g.Pids = []string{"p1", "p2"}
				g.RouteOneIn = 1
				g.TimeoutDeltas = []int64{3000, 5000, 8000, 20000}
				g.W = map[string]int{"CreatePromise": 2, "CreatePromiseAndTask": 1, "CreateCallback": 2, "CompletePromise": 1, "ClaimTask": 8, "CompleteTask": 4, "HeartbeatTasks": 4}
				c.Cfg.SignalTimeout, c.Cfg.TaskEnqueueDelay = time.Second, time.Second
				c.ExtraTicks, c.Steps = 4, [2]int{5, 14}
			default:
				g.W = map[string]int{"AcquireLock": 6, "ReleaseLock": 3, "HeartbeatLocks": 3, "CreateSchedule": 3, "ReadSchedule": 1, "DeleteSchedule": 2, "SearchSchedules": 1}
				c.Cfg.SignalTimeout = time.Second
				c.Prof.Bg = []string{"TimeoutLocks", "SchedulePromises", "TimeoutPromises"}
			}
			c.QuietAdvance = !d.OneIn(2, "straddle")
			if d.OneIn(3, "faults") {
				c.Prof.FailBefore, c.Prof.FailAfter = 14, 10
			}
			if d.OneIn(6, "nobg") {
				c.Prof.Bg = nil
			}
			return c
		},
		Classify: func(s *Sim) ([]string, bool, string) {
			var labels []string
			overlap := false
			for i, a := range s.Reqs {
				for _, b := range s.Reqs[i+1:] {
					if pa := reqPromiseId(a.Req); pa != "" && pa == reqPromiseId(b.Req) && overlapping(a, b) {
						overlap = true
					}
				}
			}
			held := false
			for _, tx := range s.Txs {
				if tx.HeldFor > 0 {
					held = true
				}
			}
			if overlap {
				labels = append(labels, "overlapping-requests-on-one-id")
			}
			if held {
				labels = append(labels, "transaction-held-across-a-tick")
			}
			return faultsLabel(s, labels), overlap && (held || nLost > 0), ShapeSignature(s)
		},
	}
	c.Extra = func(s *Sim) []Violation {
		k := s.Cfg.Url + s.Cfg.TaskEnqueueDelay.String()
		q := runners[k]
		if q == nil {
			q = NewSeqRunner(s.Cfg, dir)
			runners[k] = q
		}
		vs, e, st, lost := explain(s, q)
		nExplained += e
		nStraddle += st
		nLost = lost
		bvs, be, br := explainBg(s, func(name string) *BgRunner {
			bk := k + name
			if bgRunners[bk] == nil {
				bgRunners[bk] = NewBgRunner(s.Cfg, name, dir)
			}
			return bgRunners[bk]
		})
		nBgExplained += be
		nBgRaced += br
		vs = append(vs, bvs...)
		// "... to the sequential durable-promise SPEC": the self-differential above shows that the history is equivalent
		// to a sequential run of THIS code; that the sequential behaviour is the specified one is what the
		// statement-derived oracles of the neighbouring properties say (status tables, exact time-outs, leases, locks,
		// schedules). On this workload they count for C02 as well. Findings listed under another property are left
		// to that property's check.
		for _, v := range Judge(s) {
			switch v.Prop {
			case "C01", "C03", "C04", "C05", "C07", "C08", "C09", "C10":
				if v.Key != "" && known[v.Key] {
					continue
				}
				vs = append(vs, Violation{"C02", "spec/" + v.Prop + "-" + v.Code, "", "not what the sequential specification gives: " + v.Msg})
			}
		}
		return vs
	}
	c.Finish = func(st *core.Stats) {
		st.Extra["requests_explained_by_sequential_rerun"] = nExplained
		st.Extra["requests_straddling_a_clock_advance"] = nStraddle
		st.Extra["background_write_transactions_explained_by_sequential_rerun"] = nBgExplained
		st.Extra["background_writes_attempted_on_a_row_changed_since_the_sweeps_read"] = nBgRaced
	}
	RunCampaign(t, c)
}

func init() {
	if os.Getenv("VERIF_DEBUG_EXPLAIN") != "" {
		DebugHook = func(s *Sim, dir string) {
			q := NewSeqRunner(s.Cfg, dir)
			defer q.Close()
			vs, e, _, _ := explain(s, q)
			fmt.Printf("DEBUG explain: explained=%d violations=%d\n", e, len(vs))
			for _, v := range vs {
				fmt.Println("DEBUG", v.String()[:min(len(v.String()), 600)])
			}
		}
	}
}
