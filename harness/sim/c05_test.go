package sim

import (
	"fmt"
	"strings"
	"testing"

	"github.com/resonatehq/resonate/internal/kernel/t_api"
)

// completionPath names who completed promise pid in tx (explicit / lazy:<kind> / sweep).
func completionPath(s *Sim, tx *TxRec) string {
	if strings.HasPrefix(tx.ReqId, "TimeoutPromises:") {
		return "sweep"
	}
	for _, r := range s.Reqs {
		if r.Id == tx.ReqId {
			if r.Req.Kind == t_api.CompletePromise {
				for _, c := range tx.Diff {
					if c.Table == "promises" && c.After != nil && c.After.I("completed_on") != c.After.I("timeout") {
						return "explicit"
					}
				}
			}
			return "lazy:" + r.Req.Kind.String()
		}
	}
	return "other"
}

// TestC05 — no lost wake-ups: registrations become tasks atomically with completion.
func TestC05(t *testing.T) {
	RunCampaign(t, Campaign{
		Prop:  "C05",
		Rule:  "rapid draws kernel config, a timeline of create/complete/callback/subscription/read/search requests over 3 promise ids, clock steps landing on time-outs, and the schedule (permutation, holds across ticks, batch cuts, before/after-commit faults, crashes). Non-trivial: a registration request is in flight while its promise leaves pending (explicit, lazy or sweep), or several registrations are converted in one step. Distinct = distinct (request kinds+statuses+commit order) signature.",
		Fatal: []string{"C05"},
		Build: func(d D) *Case {
			g := DefaultGen(d)
			g.W = map[string]int{"CreatePromise": 4, "CompletePromise": 4, "CreateCallback": 4, "CreateSubscription": 4, "ReadPromise": 2, "SearchPromises": 1, "ClaimTask": 1, "CompleteTask": 1}
			g.TimeoutDeltas = []int64{500, 1000, 1000, 2000, 3000}
			if d.OneIn(4, "colonids") {
				// "every choice of ids": ids containing the separator of the derived registration/task ids
				g.Pids = []string{"a", "a:b", "b:c", "c"}
				g.Subs = []string{"s", "b:s", "c"}
			}
			cfg := GenConfig(d, 8)
			prof := Profile{Bg: []string{"TimeoutPromises", "EnqueueTasks", "TimeoutTasks"}, Permute: true, Hold: 5, Cut: 2, SendFail: 6}
			if d.OneIn(3, "faults") {
				prof.FailBefore, prof.FailAfter = 12, 10
			}
			c := &Case{Cfg: cfg, Prof: prof, Gen: g, Steps: [2]int{3, 14}, MaxRq: 4, Dts: []int64{0, 0, 0, 1, 500, 1000, -1, -1, -2, -3, 2000}, Settle: 6}
			if d.OneIn(4, "crashes") {
				c.CrashBetween = 8
				c.Prof.Crash = 40
			}
			return c
		},
		Classify: func(s *Sim) ([]string, bool, string) {
			var labels []string
			nontriv := false
			for _, tx := range s.Txs {
				var done []string
				for _, c := range tx.Diff {
					if c.Table == "promises" && c.Before != nil && c.After != nil && c.Before.I("state") == pPending && c.After.I("state") != pPending {
						done = append(done, c.Key)
					}
				}
				for _, pid := range done {
					nreg := 0
					for _, id := range tx.Pre.Keys("callbacks") {
						if tx.Pre["callbacks"][id].S("promise_id") == pid {
							nreg++
						}
					}
					path := completionPath(s, tx)
					labels = append(labels, fmt.Sprintf("completion:%s/registrations=%d", strings.SplitN(path, ":", 2)[0], min(nreg, 3)))
					if nreg >= 2 {
						nontriv = true
					}
					for _, r := range s.Reqs {
						if (r.Req.Kind == t_api.CreateCallback || r.Req.Kind == t_api.CreateSubscription) && reqPromiseId(r.Req) == pid && r.SubmitSeq < tx.Seq && (!r.Done || r.ResSeq > tx.Seq) {
							nontriv = true
							labels = append(labels, "registration-in-flight-during:"+strings.SplitN(path, ":", 2)[0])
						}
					}
				}
			}
			if len(s.Restarts) > 0 {
				labels = append(labels, "crash")
			}
			for _, tx := range s.Txs {
				if tx.Fault != "" {
					labels = append(labels, "after-commit-fault")
					break
				}
			}
			return labels, nontriv, ShapeSignature(s)
		},
	})
}
