package sim

import (
	"bytes"
	"encoding/json"
	"fmt"
	"math"
	"sort"
	"strings"
	"time"

	"github.com/resonatehq/resonate/internal/kernel/t_aio"
	"github.com/resonatehq/resonate/internal/kernel/t_api"
	"github.com/resonatehq/resonate/internal/verif/core"
	"github.com/resonatehq/resonate/pkg/callback"
	"github.com/resonatehq/resonate/pkg/lock"
	"github.com/resonatehq/resonate/pkg/promise"
	"github.com/resonatehq/resonate/pkg/schedule"
	"github.com/resonatehq/resonate/pkg/task"
	"github.com/robfig/cron/v3"
)

// Violation of a listed property found in a trace. Key is the structural signature used to match
// known findings ("" = none): it names the failing check and the shape of the counterexample.
type Violation struct {
	Prop string
	Code string
	Key  string
	Msg  string
}

func (v Violation) String() string { return fmt.Sprintf("%s %s: %s", v.Prop, v.Code, v.Msg) }

type judge struct {
	lease map[string]int64 // task id -> guaranteed lease end (claim or last timely heartbeat + ttl)
	ttl   map[string]int64 // task id -> the ttl its current holder asked for (claim or create-with-task)
	s     *Sim
	out   []Violation
	reqBy map[string]*ReqRec
	txsBy map[string][]*TxRec
	sends map[string][]*SendRec // by instance id
}

func (j *judge) add(prop, code, key, f string, a ...any) {
	j.out = append(j.out, Violation{Prop: prop, Code: code, Key: key, Msg: fmt.Sprintf(f, a...)})
}

// promise row helpers
const (
	pPending  = 1
	pResolved = 2
	pTimedout = 16
	tInit     = 1
	tEnqueued = 2
	tClaimed  = 4
	tDone     = 8
	tTimedout = 16
)

func emptyJSONMap(s string) bool { return s == "" || s == "{}" || s == "null" }

// Routes is the reference routing predicate written from the statement of C19/C08 (default tag
// source "resonate:invoke"): not JSON => logical name; a JSON object that is exactly a receiver
// with a non-empty type => physical receiver; anything else does not route.
func Routes(tags map[string]string) (recv string, ok bool) {
	v, present := tags["resonate:invoke"]
	if !present {
		return "", false
	}
	if json.Valid([]byte(v)) {
		var m map[string]json.RawMessage
		dec := json.NewDecoder(bytes.NewReader([]byte(v)))
		if err := dec.Decode(&m); err != nil || m == nil {
			return "", false // valid JSON but not an object (number, string literal, null, array, bool)
		}
		for k := range m {
			if k != "type" && k != "data" {
				return "", false
			}
		}
		var typ string
		if t, has := m["type"]; !has || json.Unmarshal(t, &typ) != nil || typ == "" {
			return "", false
		}
		return "physical:" + typ, true
	}
	b, _ := json.Marshal(v)
	return string(b), true
}

var cronParser = cron.NewParser(cron.SecondOptional | cron.Minute | cron.Hour | cron.Dom | cron.Month | cron.Dow | cron.Descriptor)

// NextOccurrence is the definition of a schedule occurrence: robfig/cron with the documented options.
func NextOccurrence(after int64, expr string) (int64, bool) {
	sch, err := cronParser.Parse(expr)
	if err != nil {
		return 0, false
	}
	return sch.Next(time.Unix(0, after*int64(time.Millisecond))).UnixMilli(), true
}

// ExpandTemplate is the reference id template: {{.id}} and {{.timestamp}} substituted verbatim.
func ExpandTemplate(tmpl, id string, ts int64) string {
	return strings.NewReplacer("{{.id}}", id, "{{.timestamp}}", fmt.Sprint(ts)).Replace(tmpl)
}

// windowTicks lists every tick value the kernel saw between two ticks (inclusive).
func (j *judge) windowTicks(from, to int64) []int64 {
	seen := map[int64]bool{}
	var out []int64
	for _, t := range j.s.Ticks {
		if t >= from && t <= to && !seen[t] {
			seen[t] = true
			out = append(out, t)
		}
	}
	if !seen[from] {
		out = append(out, from)
	}
	if !seen[to] {
		out = append(out, to)
	}
	return out
}

// leaseFrom: the stored lease end is clock + ttl for a clock of the request's window. The sum is taken over the
// integers: an end that does not fit into the column is the largest value the column holds ("never"), not a wrapped
// (negative) number and not a value of another type.
func leaseFrom(ts []int64, row core.Row, ttl int64) bool {
	end, isInt := row["expires_at"].(int64)
	if !isInt || ttl < 0 {
		return false
	}
	for _, t := range ts {
		want := t + ttl
		if ttl > math.MaxInt64-t {
			want = math.MaxInt64
		}
		if end == want {
			return true
		}
	}
	return false
}

func inTicks(ts []int64, v int64) bool {
	for _, t := range ts {
		if t == v {
			return true
		}
	}
	return false
}

// Judge evaluates every statement-derived invariant on the trace of s.
func Judge(s *Sim) []Violation {
	j := &judge{lease: map[string]int64{}, ttl: map[string]int64{}, s: s, reqBy: map[string]*ReqRec{}, txsBy: map[string][]*TxRec{}, sends: map[string][]*SendRec{}}
	for _, r := range s.Reqs {
		j.reqBy[r.Id] = r
	}
	for _, tx := range s.Txs {
		j.txsBy[tx.ReqId] = append(j.txsBy[tx.ReqId], tx)
	}
	for _, sd := range s.Sends {
		j.sends[sd.ReqId] = append(j.sends[sd.ReqId], sd)
	}
	for _, p := range s.Problems {
		prop := "C16"
		if len(p) > 3 && p[0] == 'C' && p[1] >= '0' && p[1] <= '9' && p[2] >= '0' && p[2] <= '9' && p[3] == ' ' {
			prop = p[:3]
		}
		j.add(prop, "harness", "", "%s", p)
	}
	claims := map[string][]string{} // task|counter -> successful claim request ids
	for i, tx := range s.Txs {
		// continuity: the state a transaction starts from is the state its predecessor committed; anything else
		// means that an acknowledged store transaction never reached the database (or the database changed outside one)
		if i > 0 && fmt.Sprintf("%p", tx.Pre["promises"]) != fmt.Sprintf("%p", s.Txs[i-1].Post["promises"]) {
			if d := core.Diff(s.Txs[i-1].Post, tx.Pre); len(d) > 0 {
				j.add("C06", "D1", "", "store transactions reported successful are not in the database: between tx#%d and tx#%d the committed state changed without a transaction:\n%s", s.Txs[i-1].Seq, tx.Seq, core.ChangesString(d))
				for _, c := range d {
					if c.Table == "promises" && c.Before != nil && (c.After == nil || (c.Before.I("state") != pPending && c.After.I("state") != c.Before.I("state"))) {
						j.add("C01", "I3", "", "promise %s: an acknowledged state (%s) was lost from the database: now %s", c.Key, core.RowString(c.Before), core.RowString(c.After))
					}
				}
			}
		}
		j.judgeTx(tx, claims)
	}
	for k, ids := range claims {
		if len(ids) > 1 {
			j.add("C07", "T2", "", "%d successful claims for (task|counter) %s: %v", len(ids), k, ids)
		}
	}
	for _, r := range s.Reqs {
		if r.Done && r.Err == nil && r.Res != nil {
			j.judgeResponse(r)
		}
	}
	for _, sd := range s.Sends {
		j.judgeSend(sd)
	}
	j.judgeDispatch()
	j.judgeRestarts()
	sort.SliceStable(j.out, func(a, b int) bool { return j.out[a].Prop+j.out[a].Code < j.out[b].Prop+j.out[b].Code })
	return j.out
}

// ---------------------------------------------------------------------------
// per transaction

func (j *judge) judgeTx(tx *TxRec, claims map[string][]string) {
	if len(tx.Diff) == 0 {
		return
	}
	pre, post := tx.Pre, tx.Post
	req := j.reqBy[tx.ReqId] // nil for background instances
	var reqTicks []int64
	if req != nil {
		reqTicks = j.windowTicks(req.SubmitTick, tx.Tick)
	} else {
		reqTicks = j.windowTicks(tx.Dispatch, tx.Tick)
		// background instances: the instance started at the tick in its id
		if i := strings.LastIndex(tx.ReqId, ":"); i >= 0 {
			var t0 int64
			num := tx.ReqId[i+1:]
			if k := strings.Index(num, "#"); k >= 0 {
				num = num[:k]
			}
			if _, err := fmt.Sscan(num, &t0); err == nil && t0 <= tx.Tick {
				reqTicks = j.windowTicks(t0, tx.Tick)
			}
		}
	}
	completedHere := map[string]bool{} // promises leaving pending in this transaction
	insertedHere := map[string]bool{}
	for _, c := range tx.Diff {
		if c.Table == "promises" && c.Before != nil && c.After != nil && c.Before.I("state") == pPending && c.After.I("state") != pPending {
			completedHere[c.Key] = true
		}
		if c.Table == "promises" && c.Before == nil {
			insertedHere[c.Key] = true
		}
	}
	convertedHere := map[string]bool{} // callback ids converted into tasks here
	for _, id := range pre.Keys("callbacks") {
		if completedHere[pre["callbacks"][id].S("promise_id")] {
			convertedHere[id] = true
		}
	}
	for _, c := range tx.Diff {
		switch c.Table {
		case "promises":
			j.txPromise(tx, req, reqTicks, c, pre, post)
		case "callbacks":
			switch {
			case c.Before == nil:
				p, ok := post["promises"][c.After.S("promise_id")]
				if !ok || p.I("state") != pPending {
					j.add("C05", "J1", "", "callback %s stored for a promise that is not pending (tx#%d %s)", c.Key, tx.Seq, tx.ReqId)
				}
				if req == nil || (req.Req.Kind != t_api.CreateCallback && req.Req.Kind != t_api.CreateSubscription) {
					j.add("C02", "attr", "", "callback %s inserted by %s [%s], not by a registration request", c.Key, tx.ReqId, tx.CmdString())
				} else if req.Req.Kind == t_api.CreateCallback && (c.After.S("promise_id") != req.Req.CreateCallback.PromiseId || c.After.S("root_promise_id") != req.Req.CreateCallback.RootPromiseId || c.After.S("recv") != string(req.Req.CreateCallback.Recv) || c.After.I("timeout") != req.Req.CreateCallback.Timeout) {
					j.add("C02", "attr", "", "callback %s stored with other fields than requested by %s: %s", c.Key, req, core.RowString(c.After))
					// C05-J5: "leaves a registration that will produce such a task" — the task is made from the stored receiver,
					// message and deadline; a registration stored with others than the request's wakes up somebody else, or nobody
					j.add("C05", "J5", "", "registration %s left by %s is not the one it asked for (promise, root, receiver, deadline): %s", c.Key, req, core.RowString(c.After))
				} else if req.Req.Kind == t_api.CreateSubscription && (c.After.S("promise_id") != req.Req.CreateSubscription.PromiseId || c.After.S("recv") != string(req.Req.CreateSubscription.Recv) || c.After.I("timeout") != req.Req.CreateSubscription.Timeout) {
					j.add("C02", "attr", "", "subscription %s stored with other fields than requested by %s: %s", c.Key, req, core.RowString(c.After))
					j.add("C05", "J5", "", "subscription %s left by %s is not the one it asked for (promise, receiver, deadline): %s", c.Key, req, core.RowString(c.After))
				}
			case c.After == nil:
				if !completedHere[c.Before.S("promise_id")] {
					j.add("C05", "J2", "", "registration %s removed although its promise %s did not complete in that step (tx#%d %s [%s])", c.Key, c.Before.S("promise_id"), tx.Seq, tx.ReqId, tx.CmdString())
				}
			default:
				j.add("C05", "J2", "", "registration %s modified in place (tx#%d)", c.Key, tx.Seq)
			}
		case "tasks":
			j.txTask(tx, req, reqTicks, c, pre, post, completedHere, insertedHere, convertedHere, claims)
		case "locks":
			j.txLock(tx, req, reqTicks, c)
		case "schedules":
			j.txSchedule(tx, req, reqTicks, c, pre, post)
		}
	}
	// C05-J2: conversions of every registration of every promise completed here
	for pid := range completedHere {
		for _, id := range pre.Keys("callbacks") {
			cb := pre["callbacks"][id]
			if cb.S("promise_id") != pid {
				continue
			}
			if _, still := post["callbacks"][id]; still {
				j.add("C05", "J2", "", "registration %s outlives its promise %s (tx#%d %s)", id, pid, tx.Seq, tx.ReqId)
			}
			_, had := pre["tasks"][id]
			tk, has := post["tasks"][id]
			if had && !strings.Contains(pre["tasks"][id].S("mesg"), `"`+pid+`"`) {
				// F17: the task that is in the way was made for ANOTHER awaiting/awaited pair whose derived id coincides
				j.add("C05", "J2", "C05:derived-id-collision", "registration %s of %s collides with an existing task of the same id", id, pid)
			} else if had {
				j.add("C05", "J2", "", "registration %s of %s meets a task of the same pair that exists already: a second task for one awaiting/awaited pair (tx#%d %s)", id, pid, tx.Seq, tx.ReqId)
			} else if !has {
				j.add("C05", "J2", "", "registration %s of %s was dropped: no task created when the promise completed (tx#%d %s [%s])", id, pid, tx.Seq, tx.ReqId, tx.CmdString())
			} else if tk.I("state") != tInit || tk.S("recv") != cb.S("recv") || tk.S("mesg") != cb.S("mesg") || tk.S("root_promise_id") != cb.S("root_promise_id") || tk.I("timeout") != cb.I("timeout") {
				j.add("C05", "J2", "", "registration %s of %s converted into a different task: %s vs %s", id, pid, core.RowString(cb), core.RowString(tk))
			}
		}
		// C08-B2 every outstanding task of the promise is finished in the same step
		for _, id := range pre.Keys("tasks") {
			tk := pre["tasks"][id]
			if tk.S("root_promise_id") == pid && tk.I("state")&(tInit|tEnqueued|tClaimed) != 0 {
				if a, ok := post["tasks"][id]; !ok || a.I("state")&(tDone|tTimedout) == 0 {
					j.add("C08", "B2", "", "task %s of promise %s still outstanding after the promise completed (tx#%d %s)", id, pid, tx.Seq, tx.ReqId)
				}
			}
		}
	}
}

func (j *judge) txPromise(tx *TxRec, req *ReqRec, reqTicks []int64, c core.Change, pre, post core.Snapshot) {
	switch {
	case c.After == nil:
		j.add("C01", "I1", "", "promise %s disappeared (tx#%d %s)", c.Key, tx.Seq, tx.ReqId)
	case c.Before == nil:
		a := c.After
		if a.I("state") != pPending || !a.Null("completed_on") || !a.Null("idempotency_key_for_complete") || a.S("value_data") != "" || !emptyJSONMap(a.S("value_headers")) {
			j.add("C01", "I3", "", "promise %s inserted other than pending with empty completion half: %s", c.Key, core.RowString(a))
		}
		// C08-B1 routed <=> invocation task in the same step
		_, routed := Routes(a.JSONMap("tags"))
		var born []string
		for _, id := range post.Keys("tasks") {
			tk := post["tasks"][id]
			if _, had := pre["tasks"][id]; had {
				continue
			}
			if tk.S("root_promise_id") == c.Key && strings.Contains(tk.S("mesg"), `"invoke"`) {
				born = append(born, id)
			}
		}
		if routed && len(born) != 1 {
			key := ""
			if j.routerFailed(tx.ReqId) {
				key = "C08:router-failure-unrouted-insert"
			}
			j.add("C08", "B1", key, "promise %s routes (%s) but %d invocation tasks were created with it (tx#%d %s)", c.Key, a.JSONMap("tags")["resonate:invoke"], len(born), tx.Seq, tx.ReqId)
		}
		if !routed && len(born) != 0 {
			j.add("C08", "B1", "", "promise %s does not route but got invocation task %v", c.Key, born)
		}
		// attribution: created by a create request for that id, or by the schedule cycle
		switch {
		case req != nil && req.Req.Kind == t_api.CreatePromise && req.Req.CreatePromise.Id == c.Key:
			j.createdAsRequested(tx, req, req.Req.CreatePromise, a, reqTicks)
		case req != nil && req.Req.Kind == t_api.CreatePromiseAndTask && req.Req.CreatePromiseAndTask.Promise.Id == c.Key:
			j.createdAsRequested(tx, req, req.Req.CreatePromiseAndTask.Promise, a, reqTicks)
		case req == nil && strings.HasPrefix(tx.ReqId, "SchedulePromises:"):
			// judged by txSchedule (S2/S3)
			j.scheduledPromise(tx, c, pre, post)
		default:
			j.add("C02", "attr", "", "promise %s created by %s [%s], which is not a creation of that id", c.Key, tx.ReqId, tx.CmdString())
		}
	default:
		b, a := c.Before, c.After
		for _, f := range []string{"id", "param_headers", "param_data", "timeout", "idempotency_key_for_create", "tags", "created_on", "sort_id"} {
			if fmt.Sprint(b[f]) != fmt.Sprint(a[f]) {
				j.add("C01", "I2", "", "promise %s: creation field %s changed %v -> %v (tx#%d %s)", c.Key, f, b[f], a[f], tx.Seq, tx.ReqId)
			}
		}
		if b.I("state") != pPending {
			j.add("C01", "I3", "", "completed promise %s changed again (tx#%d %s [%s]): %s -> %s", c.Key, tx.Seq, tx.ReqId, tx.CmdString(), core.RowString(b), core.RowString(a))
			return
		}
		if a.I("state") == pPending {
			j.add("C01", "I3", "", "pending promise %s modified without completing: %s -> %s", c.Key, core.RowString(b), core.RowString(a))
			return
		}
		to, tmo, con := a.I("state"), a.I("timeout"), a.I("completed_on")
		if st := a.I("state"); st != 2 && st != 4 && st != 8 && st != 16 {
			j.add("C01", "I3", "", "promise %s left pending to invalid state %d", c.Key, st)
		}
		if a.Null("completed_on") {
			j.add("C01", "I3", "", "promise %s completed without completion time", c.Key)
		}
		if con == tmo { // time-out transition
			if tx.Tick < tmo {
				j.add("C04", "O2", "", "promise %s stored as timed out at tick %d, before its timeout %d (tx#%d %s)", c.Key, tx.Tick-Base, tmo-Base, tx.Seq, tx.ReqId)
			}
			want := int64(pTimedout)
			if a.JSONMap("tags")["resonate:timeout"] == "true" {
				want = pResolved
			}
			if to != want || a.S("value_data") != "" || !emptyJSONMap(a.S("value_headers")) || !a.Null("idempotency_key_for_complete") {
				j.add("C04", "O3", "", "promise %s reached its timeout but was stored as %s (want state %d, empty value, no key) (tx#%d %s)", c.Key, core.RowString(a), want, tx.Seq, tx.ReqId)
			}
		} else {
			if con > tmo {
				j.add("C04", "O4", "", "promise %s completed by a request at %d, after its timeout %d, with completion time != timeout: %s", c.Key, con-Base, tmo-Base, core.RowString(a))
			}
			if req == nil || req.Req.Kind != t_api.CompletePromise || req.Req.CompletePromise.Id != c.Key {
				j.add("C02", "attr", "", "promise %s completed (not a time-out) by %s [%s], which is not a completion of that id", c.Key, tx.ReqId, tx.CmdString())
			} else {
				cr := req.Req.CompletePromise
				var hdr map[string]string
				_ = json.Unmarshal([]byte(a.S("value_headers")), &hdr)
				if int64(cr.State) != to || a.S("value_data") != string(cr.Value.Data) || !sameMap(hdr, cr.Value.Headers) || !sameKey(a, "idempotency_key_for_complete", keyStr(cr.IdempotencyKey)) {
					j.add("C02", "attr", "", "promise %s completed as %s but the request was %s", c.Key, core.RowString(a), req)
				}
				if !inTicks(reqTicks, con) {
					j.add("C04", "O4", "", "promise %s: completion time %d is not a server clock reading within the request (%v)", c.Key, con-Base, rel(reqTicks))
				}
				if !(con < tmo) {
					j.add("C04", "O4", "", "promise %s: caller state installed at %d, at or after the timeout %d", c.Key, con-Base, tmo-Base)
				}
			}
		}
	}
}

func rel(ts []int64) []int64 {
	out := make([]int64, len(ts))
	for i, t := range ts {
		out[i] = t - Base
	}
	return out
}

func keyStr[T ~string](k *T) *string {
	if k == nil {
		return nil
	}
	s := string(*k)
	return &s
}

func sameKey(r core.Row, col string, want *string) bool {
	if want == nil {
		return r.Null(col)
	}
	return !r.Null(col) && r.S(col) == *want
}

func sameMap(a, b map[string]string) bool {
	if len(a) != len(b) {
		return false
	}
	for k, v := range a {
		if w, ok := b[k]; !ok || w != v {
			return false
		}
	}
	return true
}

func (j *judge) routerFailed(reqId string) bool {
	// the harness records injected router failures as events keyed by request id
	return j.s.routerFails[reqId] > 0
}

func (j *judge) createdAsRequested(tx *TxRec, req *ReqRec, cr *t_api.CreatePromiseRequest, a core.Row, reqTicks []int64) {
	var hdr map[string]string
	_ = json.Unmarshal([]byte(a.S("param_headers")), &hdr)
	if a.I("timeout") != cr.Timeout || a.S("param_data") != string(cr.Param.Data) || !sameMap(hdr, cr.Param.Headers) || !sameMap(a.JSONMap("tags"), cr.Tags) || !sameKey(a, "idempotency_key_for_create", keyStr(cr.IdempotencyKey)) {
		j.add("C02", "attr", "", "promise %s stored as %s but the request was %s", cr.Id, core.RowString(a), req)
	}
	if !inTicks(reqTicks, a.I("created_on")) {
		j.add("C02", "attr", "", "promise %s: creation time %d is not a server clock reading within the request (%v)", cr.Id, a.I("created_on")-Base, rel(reqTicks))
	}
}

// ---------------------------------------------------------------------------
// tasks

func mesgType(r core.Row) string {
	var m struct {
		Type string `json:"type"`
	}
	_ = json.Unmarshal([]byte(r.S("mesg")), &m)
	return m.Type
}

func (j *judge) handoffs(inst, task string, before int) []*SendRec {
	var out []*SendRec
	for _, sd := range j.sends[inst] {
		if sd.Sub.Task.Id == task && sd.Seq < before {
			out = append(out, sd)
		}
	}
	return out
}

func (j *judge) txTask(tx *TxRec, req *ReqRec, reqTicks []int64, c core.Change, pre, post core.Snapshot, completedHere, insertedHere, convertedHere map[string]bool, claims map[string][]string) {
	switch {
	case c.After == nil:
		j.add("C07", "T3", "", "task %s disappeared (tx#%d %s)", c.Key, tx.Seq, tx.ReqId)
		return
	case c.Before == nil:
		a := c.After
		root := a.S("root_promise_id")
		switch {
		case convertedHere[c.Key]:
			// judged with its registration (J2)
		case insertedHere[root] && mesgType(a) == "invoke":
			// born with its promise (B1); state: init, or claimed for create-with-task
			wantClaimed := req != nil && req.Req.Kind == t_api.CreatePromiseAndTask
			if wantClaimed {
				ct := req.Req.CreatePromiseAndTask.Task
				if a.I("state") != tClaimed || a.S("process_id") != ct.ProcessId || a.I("ttl") != int64(ct.Ttl) || !leaseFrom(reqTicks, a, a.I("ttl")) {
					j.add("C08", "B1", "", "create-with-task stored task %s other than claimed by the requesting process with lease = clock + ttl: %s", c.Key, core.RowString(a))
					j.add("C07", "T4", "", "task %s created for holder %s with ttl %d but stored as %s (lease must be clock + ttl and renew by that ttl)", c.Key, ct.ProcessId, ct.Ttl, core.RowString(a))
				}
				j.ttl[c.Key] = int64(ct.Ttl)
			} else if a.I("state") != tInit {
				j.add("C08", "B1", "", "invocation task %s born in state %d", c.Key, a.I("state"))
			}
			if a.I("counter") != 1 {
				j.add("C07", "T3", "", "task %s born with counter %d", c.Key, a.I("counter"))
			}
			if a.I("state") == tClaimed {
				j.lease[c.Key] = a.I("expires_at")
			}
		default:
			j.add("C08", "B6", "", "task %s appeared without cause (tx#%d %s [%s]): %s", c.Key, tx.Seq, tx.ReqId, tx.CmdString(), core.RowString(a))
		}
		return
	}
	b, a := c.Before, c.After
	bs, as := b.I("state"), a.I("state")
	bc, ac := b.I("counter"), a.I("counter")
	for _, f := range []string{"id", "root_promise_id", "recv", "mesg", "timeout", "created_on", "sort_id"} {
		if fmt.Sprint(b[f]) != fmt.Sprint(a[f]) {
			j.add("C08", "B6", "", "task %s: field %s changed %v -> %v (tx#%d %s)", c.Key, f, b[f], a[f], tx.Seq, tx.ReqId)
		}
	}
	if ac < bc {
		j.add("C07", "T3", "", "task %s: counter decreased %d -> %d (tx#%d %s)", c.Key, bc, ac, tx.Seq, tx.ReqId)
	}
	if bs&(tDone|tTimedout) != 0 {
		j.add("C07", "T3", "", "finished task %s changed again (tx#%d %s [%s]): %s -> %s", c.Key, tx.Seq, tx.ReqId, tx.CmdString(), core.RowString(b), core.RowString(a))
		return
	}
	root := a.S("root_promise_id")
	rootDone := completedHere[root]
	isNotify := mesgType(a) == "notify"
	switch {
	case as == tDone:
		byHolder := req != nil && req.Req.Kind == t_api.CompleteTask && req.Req.CompleteTask.Id == c.Key && bs == tClaimed && int64(req.Req.CompleteTask.Counter) == bc
		notifyDone := false
		if isNotify && bs == tInit && strings.HasPrefix(tx.ReqId, "EnqueueTasks:") {
			notifyDone = len(j.handoffs(tx.ReqId, c.Key, tx.Seq)) > 0
		}
		if !byHolder && !rootDone && !notifyDone {
			key := ""
			if req != nil && (req.Req.Kind == t_api.CompletePromise || req.Req.Kind == t_api.ReadPromise || req.Req.Kind == t_api.CreatePromise || req.Req.Kind == t_api.SearchPromises) || (req == nil && strings.HasPrefix(tx.ReqId, "TimeoutPromises:")) {
				// a completion transaction that lost the compare-and-set on the promise
				if p, ok := pre["promises"][root]; ok && p.I("state") != pPending {
					key = "C08:loser-completes-tasks"
				}
			}
			j.add("C08", "B6", key, "task %s (%s) finished behind the worker's back: %s -> completed in tx#%d by %s [%s] without a completion by its holder, its promise completing in that step, or a notification hand-off", c.Key, mesgType(a), stateName(bs), tx.Seq, tx.ReqId, tx.CmdString())
		}
		if byHolder && isNotify == false && ac != bc {
			j.add("C07", "T3", "", "task %s: counter changed on completion", c.Key)
		}
	case as == tTimedout:
		if tx.Tick < a.I("timeout") {
			j.add("C07", "T4", "", "task %s timed out at tick %d before its timeout %d (tx#%d %s)", c.Key, tx.Tick-Base, a.I("timeout")-Base, tx.Seq, tx.ReqId)
		}
	case as == tClaimed && bs != tClaimed:
		ok := req != nil && req.Req.Kind == t_api.ClaimTask && req.Req.ClaimTask.Id == c.Key && int64(req.Req.ClaimTask.Counter) == bc && bs&(tInit|tEnqueued) != 0
		if !ok {
			j.add("C07", "T1", "", "task %s claimed illegitimately: %s counter %d -> claimed by %s (tx#%d)", c.Key, stateName(bs), bc, tx.ReqId, tx.Seq)
		} else {
			k := fmt.Sprintf("%s|%d", c.Key, bc)
			claims[k] = append(claims[k], req.Id)
			j.lease[c.Key] = a.I("expires_at")
			cr := req.Req.ClaimTask
			j.ttl[c.Key] = int64(cr.Ttl)
			if a.S("process_id") != cr.ProcessId || a.I("ttl") != int64(cr.Ttl) || !leaseFrom(reqTicks, a, a.I("ttl")) {
				j.add("C07", "T4", "", "task %s claimed by %s but stored holder/lease is %s (lease must be a clock reading of the request + ttl; window %v)", c.Key, req, core.RowString(a), rel(reqTicks))
			}
			if ac != bc {
				j.add("C07", "T3", "", "task %s: claim changed the counter %d -> %d", c.Key, bc, ac)
			}
		}
	case bs == tClaimed && as == tInit:
		// the guaranteed lease: claim or last *timely* heartbeat + ttl (a heartbeat that arrives after the
		// lease ran out earns nothing, the sweep may already have decided)
		g, tracked := j.lease[c.Key]
		if !tracked {
			g = b.I("expires_at")
		}
		if !(g <= tx.Tick) && !(b.I("timeout") <= tx.Tick) {
			j.add("C07", "T4", "", "task %s taken from its holder %s at tick %d, before the lease end %d (tx#%d %s)", c.Key, b.S("process_id"), tx.Tick-Base, g-Base, tx.Seq, tx.ReqId)
		}
		if ac <= bc {
			j.add("C07", "T5", "", "task %s: lease reclaimed without increasing the counter (%d -> %d)", c.Key, bc, ac)
		}
	case bs == tEnqueued && as == tInit:
		if !(b.I("expires_at") <= tx.Tick) && !(b.I("timeout") <= tx.Tick) {
			j.add("C07", "T4", "", "enqueued task %s reset at tick %d before its claim window ended (%d)", c.Key, tx.Tick-Base, b.I("expires_at")-Base)
		}
		if ac <= bc {
			j.add("C07", "T5", "", "enqueued task %s reset without increasing the counter (%d -> %d)", c.Key, bc, ac)
		}
	case bs == tInit && as == tEnqueued:
		ok := false
		for _, sd := range j.handoffs(tx.ReqId, c.Key, tx.Seq) {
			if sd.Outcome == "success" && int64(sd.Sub.Task.Counter) == bc {
				ok = true
			}
		}
		if !ok {
			j.add("C08", "B4", "", "task %s marked enqueued by %s without a successful hand-off of (id, counter %d) in that cycle", c.Key, tx.ReqId, bc)
		}
		if ac != bc {
			j.add("C07", "T3", "", "task %s: counter changed on enqueue", c.Key)
		}
	case bs == tInit && as == tInit:
		hs := j.handoffs(tx.ReqId, c.Key, tx.Seq)
		failed := false
		for _, sd := range hs {
			if sd.Outcome != "success" {
				failed = true
			}
		}
		if !failed {
			j.add("C08", "B4", "", "init task %s rewritten by %s without a failed hand-off: %s -> %s", c.Key, tx.ReqId, core.RowString(b), core.RowString(a))
		} else if a.I("attempt") != b.I("attempt")+1 || ac != bc {
			j.add("C08", "B4", "", "failed hand-off of task %s must leave it init with attempt+1 and the same counter: %s -> %s", c.Key, core.RowString(b), core.RowString(a))
		}
	case bs == tClaimed && as == tClaimed:
		// heartbeat of the owning process: only the lease end moves, to clock + ttl
		ok := req != nil && req.Req.Kind == t_api.HeartbeatTasks && req.Req.HeartbeatTasks.ProcessId == b.S("process_id")
		if g, tracked := j.lease[c.Key]; ok && (!tracked || tx.Tick < g) {
			// timely heartbeat: the renewal is committed before the lease ran out. (A heartbeat whose coroutine
			// read the clock in time but whose write lands at or after the lease end races with a sweep that has
			// already read the expired row; the statement promises nothing for it.)
			j.lease[c.Key] = a.I("expires_at")
		}
		if want, tracked := j.ttl[c.Key]; ok && tracked && !leaseFrom(reqTicks, a, want) {
			j.add("C07", "T4", "", "heartbeat of %s renewed task %s to %d, not to clock + the ttl %d its holder asked for (window %v, tx#%d)", b.S("process_id"), c.Key, a.I("expires_at")-Base, want, rel(reqTicks), tx.Seq)
		}
		if !ok || a.S("process_id") != b.S("process_id") || a.I("ttl") != b.I("ttl") || ac != bc || !leaseFrom(reqTicks, a, a.I("ttl")) {
			j.add("C07", "T4", "", "claimed task %s modified other than by a heartbeat of its holder to clock+ttl (tx#%d %s): %s -> %s", c.Key, tx.Seq, tx.ReqId, core.RowString(b), core.RowString(a))
		}
	default:
		j.add("C07", "T3", "", "task %s: unexpected transition %s -> %s (tx#%d %s [%s])", c.Key, stateName(bs), stateName(as), tx.Seq, tx.ReqId, tx.CmdString())
	}
}

func stateName(s int64) string {
	switch s {
	case 1:
		return "init"
	case 2:
		return "enqueued"
	case 4:
		return "claimed"
	case 8:
		return "completed"
	case 16:
		return "timedout"
	}
	return fmt.Sprint(s)
}

// ---------------------------------------------------------------------------
// locks

func (j *judge) txLock(tx *TxRec, req *ReqRec, reqTicks []int64, c core.Change) {
	switch {
	case c.Before == nil:
		a := c.After
		ok := req != nil && req.Req.Kind == t_api.AcquireLock && req.Req.AcquireLock.ResourceId == c.Key && req.Req.AcquireLock.ExecutionId == a.S("execution_id") &&
			req.Req.AcquireLock.ProcessId == a.S("process_id") && req.Req.AcquireLock.Ttl == a.I("ttl") && leaseFrom(reqTicks, a, a.I("ttl"))
		if !ok {
			j.add("C09", "L1", "", "lock %s created other than by an acquire of that execution with lease = clock + ttl (tx#%d %s): %s", c.Key, tx.Seq, tx.ReqId, core.RowString(a))
		}
	case c.After == nil:
		b := c.Before
		byHolder := req != nil && req.Req.Kind == t_api.ReleaseLock && req.Req.ReleaseLock.ResourceId == c.Key && req.Req.ReleaseLock.ExecutionId == b.S("execution_id")
		expired := b.I("expires_at") <= tx.Tick
		if !byHolder && !expired {
			j.add("C09", "L2", "", "lock %s held by %s (lease end %d) removed at tick %d without a release by its holder (tx#%d %s [%s])", c.Key, b.S("execution_id"), b.I("expires_at")-Base, tx.Tick-Base, tx.Seq, tx.ReqId, tx.CmdString())
		}
	default:
		b, a := c.Before, c.After
		expired := b.I("expires_at") <= tx.Tick
		if b.S("execution_id") != a.S("execution_id") {
			if !expired {
				j.add("C09", "L3", "", "lock %s changed holder %s -> %s inside the lease (end %d, tick %d) (tx#%d %s)", c.Key, b.S("execution_id"), a.S("execution_id"), b.I("expires_at")-Base, tx.Tick-Base, tx.Seq, tx.ReqId)
			}
			if req != nil && req.Req.Kind == t_api.HeartbeatLocks {
				j.add("C09", "L4", "", "heartbeat transferred lock %s", c.Key)
			}
			return
		}
		switch {
		case req != nil && req.Req.Kind == t_api.AcquireLock && req.Req.AcquireLock.ResourceId == c.Key && req.Req.AcquireLock.ExecutionId == b.S("execution_id"):
			ar := req.Req.AcquireLock
			if a.S("process_id") != ar.ProcessId || a.I("ttl") != ar.Ttl || !leaseFrom(reqTicks, a, a.I("ttl")) {
				j.add("C09", "L1", "", "re-acquire of lock %s by its holder must set process, ttl and lease = clock + ttl: %s", c.Key, core.RowString(a))
			}
		case req != nil && req.Req.Kind == t_api.HeartbeatLocks && req.Req.HeartbeatLocks.ProcessId == b.S("process_id"):
			if a.S("process_id") != b.S("process_id") || a.I("ttl") != b.I("ttl") || !leaseFrom(reqTicks, a, a.I("ttl")) {
				j.add("C09", "L4", "", "heartbeat must only move the lease end of lock %s to clock + ttl: %s -> %s", c.Key, core.RowString(b), core.RowString(a))
			}
		default:
			j.add("C09", "L2", "", "lock %s modified by %s [%s], neither its holder's re-acquire nor its process's heartbeat: %s -> %s", c.Key, tx.ReqId, tx.CmdString(), core.RowString(b), core.RowString(a))
		}
	}
}

// ---------------------------------------------------------------------------
// schedules

func (j *judge) txSchedule(tx *TxRec, req *ReqRec, reqTicks []int64, c core.Change, pre, post core.Snapshot) {
	switch {
	case c.Before == nil:
		a := c.After
		if req == nil || req.Req.Kind != t_api.CreateSchedule || req.Req.CreateSchedule.Id != c.Key {
			j.add("C02", "attr", "", "schedule %s created by %s", c.Key, tx.ReqId)
			return
		}
		cr := req.Req.CreateSchedule
		next, ok := NextOccurrence(a.I("created_on"), cr.Cron)
		if !ok || a.I("next_run_time") != next || !a.Null("last_run_time") || !inTicks(reqTicks, a.I("created_on")) {
			j.add("C10", "S4", "", "schedule %s created with next run %d, want first occurrence after creation time %d = %d (window %v)", c.Key, a.I("next_run_time")-Base, a.I("created_on")-Base, next-Base, rel(reqTicks))
		}
		var ph map[string]string
		_ = json.Unmarshal([]byte(a.S("promise_param_headers")), &ph)
		if a.S("cron") != cr.Cron || a.S("promise_id") != cr.PromiseId || a.I("promise_timeout") != cr.PromiseTimeout || a.S("promise_param_data") != string(cr.PromiseParam.Data) || !sameMap(ph, cr.PromiseParam.Headers) ||
			!sameMap(a.JSONMap("promise_tags"), cr.PromiseTags) || !sameKey(a, "idempotency_key", keyStr(cr.IdempotencyKey)) {
			j.add("C02", "attr", "", "schedule %s stored as %s but the request was %s", c.Key, core.RowString(a), req)
		}
	case c.After == nil:
		if req == nil || req.Req.Kind != t_api.DeleteSchedule || req.Req.DeleteSchedule.Id != c.Key {
			j.add("C10", "S3", "", "schedule %s removed by %s [%s], not by a delete request", c.Key, tx.ReqId, tx.CmdString())
		}
	default:
		b, a := c.Before, c.After
		for _, f := range []string{"id", "cron", "promise_id", "promise_timeout", "promise_param_headers", "promise_param_data", "promise_tags", "idempotency_key", "created_on", "tags", "description", "sort_id"} {
			if fmt.Sprint(b[f]) != fmt.Sprint(a[f]) {
				j.add("C10", "S1", "", "schedule %s: field %s changed (tx#%d %s)", c.Key, f, tx.Seq, tx.ReqId)
			}
		}
		old := b.I("next_run_time")
		want, ok := NextOccurrence(old, b.S("cron"))
		// a cycle that read an earlier incarnation of this id (deleted and re-created since, with the same due
		// occurrence) advances the new incarnation with the old one's decision: listed finding F21
		staleKey := ""
		for _, t := range j.txsBy[tx.ReqId] {
			if len(t.Cmds) == 1 && t.Cmds[0].Kind == t_aio.ReadSchedules {
				if sr, ok := t.Pre["schedules"][c.Key]; ok && (sr.I("sort_id") != b.I("sort_id") || sr.I("created_on") != b.I("created_on")) && strings.HasPrefix(tx.ReqId, "SchedulePromises:") {
					staleKey = "C10:stale-cycle-advances-recreated-schedule"
				}
				break
			}
		}
		if tx.Tick < old {
			j.add("C10", "S1", "", "schedule %s fired at tick %d before its occurrence %d", c.Key, tx.Tick-Base, old-Base)
		}
		if !ok || a.I("next_run_time") != want || a.Null("last_run_time") || a.I("last_run_time") != old {
			j.add("C10", "S1", staleKey, "schedule %s advanced %d -> %d (last %v), want the next occurrence %d with last = %d (skipped or repeated occurrence) (tx#%d %s)", c.Key, old-Base, a.I("next_run_time")-Base, a["last_run_time"], want-Base, old-Base, tx.Seq, tx.ReqId)
		}
		// S2: the occurrence's promise exists afterwards; created here unless it existed before
		pid := ExpandTemplate(b.S("promise_id"), c.Key, old)
		if _, ok := post["promises"][pid]; !ok {
			key := staleKey
			if pid2 := pid; strings.ContainsAny(pid2, "<>&'\"+") {
				key = "C20:html-escaped-schedule-id"
			}
			j.add("C10", "S2", key, "schedule %s advanced past occurrence %d but promise %q does not exist after that step (tx#%d %s)", c.Key, old-Base, pid, tx.Seq, tx.ReqId)
		}
	}
}

// scheduledPromise judges a promise inserted by the schedule cycle (S2/S3). The basis is the schedule
// row the cycle read (pre-state of the instance's ReadSchedules transaction).
func (j *judge) scheduledPromise(tx *TxRec, c core.Change, pre, post core.Snapshot) {
	a := c.After
	tags := a.JSONMap("tags")
	sid := tags["resonate:schedule"]
	if sid == "" || tags["resonate:invocation"] != "true" {
		j.add("C10", "S2", "", "scheduled promise %s lacks the schedule marker tags: %v", c.Key, tags)
		return
	}
	var read *TxRec
	for _, t := range j.txsBy[tx.ReqId] {
		if len(t.Cmds) == 1 && t.Cmds[0].Kind == t_aio.ReadSchedules {
			read = t
			break
		}
	}
	if read == nil {
		j.add("C10", "S3", "", "promise %s created by %s which never read the schedules", c.Key, tx.ReqId)
		return
	}
	sr, ok := read.Pre["schedules"][sid]
	if !ok {
		j.add("C10", "S3", "", "promise %s created for schedule %s which did not exist when the cycle %s read the schedules", c.Key, sid, tx.ReqId)
		return
	}
	old := sr.I("next_run_time")
	if read.Tick < old {
		j.add("C10", "S1", "", "cycle %s fired occurrence %d of schedule %s at tick %d, before it was reached", tx.ReqId, old-Base, sid, read.Tick-Base)
	}
	if pid := ExpandTemplate(sr.S("promise_id"), sid, old); pid != c.Key {
		key := ""
		if strings.ContainsAny(pid, "<>&'\"+") {
			key = "C20:html-escaped-schedule-id"
		}
		j.add("C10", "S2", key, "occurrence %d of schedule %s must create promise %q, created %q", old-Base, sid, pid, c.Key)
	}
	var hdr, shdr map[string]string
	_ = json.Unmarshal([]byte(a.S("param_headers")), &hdr)
	_ = json.Unmarshal([]byte(sr.S("promise_param_headers")), &shdr)
	wantTags := sr.JSONMap("promise_tags")
	wantTags["resonate:schedule"] = sid
	wantTags["resonate:invocation"] = "true"
	// occurrence + configured timeout over the integers: a sum that does not fit is the largest int64 ("never"), not a
	// wrapped number (a promise born timed out)
	wantTimeout := old + sr.I("promise_timeout")
	if pt := sr.I("promise_timeout"); pt > 0 && old > math.MaxInt64-pt {
		wantTimeout = math.MaxInt64
	}
	if a.I("timeout") != wantTimeout || a.S("param_data") != sr.S("promise_param_data") || !sameMap(hdr, shdr) || !sameMap(tags, wantTags) {
		j.add("C10", "S2", "", "promise %s of schedule %s occurrence %d stored as %s, want timeout %d, the configured parameter and tags %v", c.Key, sid, old-Base, core.RowString(a), wantTimeout-Base, wantTags)
	}
	cur, has := pre["schedules"][sid]
	if !has || cur.I("created_on") != sr.I("created_on") || cur.I("sort_id") != sr.I("sort_id") {
		// the schedule was deleted (and possibly re-created) after the cycle read it: the occurrence was
		// due before the deletion, so its promise may still be created; nothing else to demand
		return
	}
	if cur.I("next_run_time") != old {
		j.add("C10", "S1", "", "occurrence %d of schedule %s fired again: promise %s created although the schedule had already advanced to %d (tx#%d)", old-Base, sid, c.Key, cur.I("next_run_time")-Base, tx.Seq)
		return
	}
	if sa, still := post["schedules"][sid]; still && sa.I("next_run_time") == old {
		j.add("C10", "S3", "", "promise %s of occurrence %d created without advancing schedule %s in the same step (tx#%d)", c.Key, old-Base, sid, tx.Seq)
	}
}

// ---------------------------------------------------------------------------
// responses

type outPromise struct {
	p     *promise.Promise
	where string
}

func promisesOf(res *t_api.Response) []outPromise {
	var out []outPromise
	add := func(p *promise.Promise, w string) {
		if p != nil {
			out = append(out, outPromise{p, w})
		}
	}
	switch res.Kind {
	case t_api.ReadPromise:
		add(res.ReadPromise.Promise, "read")
	case t_api.CreatePromise:
		add(res.CreatePromise.Promise, "create")
	case t_api.CreatePromiseAndTask:
		add(res.CreatePromiseAndTask.Promise, "create")
	case t_api.CompletePromise:
		add(res.CompletePromise.Promise, "complete")
	case t_api.SearchPromises:
		for _, p := range res.SearchPromises.Promises {
			add(p, "search")
		}
	case t_api.CreateCallback:
		add(res.CreateCallback.Promise, "callback")
	case t_api.CreateSubscription:
		add(res.CreateSubscription.Promise, "subscription")
	case t_api.ClaimTask:
		add(res.ClaimTask.RootPromise, "claim-root")
		add(res.ClaimTask.LeafPromise, "claim-leaf")
	}
	return out
}

func deref(p *int64) any {
	if p == nil {
		return nil
	}
	return *p
}

// checkOutPromise is C01-I4: a promise that leaves the server agrees with the stored row.
func (j *judge) checkOutPromise(op outPromise, snapIdx int, who string) {
	p := op.p
	row, ok := j.s.Snaps[snapIdx]["promises"][p.Id]
	if !ok {
		j.add("C01", "I4", "", "%s returned promise %s (%s) that is not stored", who, p.Id, op.where)
		return
	}
	var ph, vh map[string]string
	_ = json.Unmarshal([]byte(row.S("param_headers")), &ph)
	_ = json.Unmarshal([]byte(row.S("value_headers")), &vh)
	if p.Timeout != row.I("timeout") || string(p.Param.Data) != row.S("param_data") || !sameMap(p.Param.Headers, ph) || !sameMap(p.Tags, row.JSONMap("tags")) ||
		!sameKey(row, "idempotency_key_for_create", keyStr(p.IdempotencyKeyForCreate)) || p.CreatedOn == nil || *p.CreatedOn != row.I("created_on") {
		j.add("C01", "I4", "", "%s returned promise %s (%s) whose creation fields differ from the stored ones: got %v stored %s", who, p.Id, op.where, p, core.RowString(row))
	}
	if p.State != promise.Pending {
		if int64(p.State) != row.I("state") || string(p.Value.Data) != row.S("value_data") || !sameMap(p.Value.Headers, vh) ||
			!sameKey(row, "idempotency_key_for_complete", keyStr(p.IdempotencyKeyForComplete)) || p.CompletedOn == nil || row.Null("completed_on") || *p.CompletedOn != row.I("completed_on") {
			j.add("C01", "I4", "", "%s returned promise %s (%s) as %v but the stored completion is %s", who, p.Id, op.where, p, core.RowString(row))
		}
	}
}

// existsSnap reports whether some committed state between the submission and the response of r satisfies pred.
func (j *judge) existsSnap(r *ReqRec, pred func(core.Snapshot) bool) bool {
	for i := r.SubmitSnap; i <= r.ResSnap && i < len(j.s.Snaps); i++ {
		if pred(j.s.Snaps[i]) {
			return true
		}
	}
	return false
}

// ownTx returns the transactions of request r that changed anything, with the rows they changed in table tbl.
func (j *judge) changed(r *ReqRec, tbl, key string) []core.Change {
	var out []core.Change
	for _, tx := range j.txsBy[r.Id] {
		for _, c := range tx.Diff {
			if c.Table == tbl && c.Key == key {
				out = append(out, c)
			}
		}
	}
	return out
}

func (j *judge) judgeResponse(r *ReqRec) {
	res := r.Res
	who := r.String()
	for _, op := range promisesOf(res) {
		j.checkOutPromise(op, r.ResSnap, who)
		if op.p.State == promise.Pending {
			// C01-I5, "from then on ... the same in every response": a promise whose completion was committed before the
			// request was submitted, or by a transaction of the request itself, cannot leave the server as pending
			if row, ok := j.s.Snaps[r.SubmitSnap]["promises"][op.p.Id]; ok && row.I("state") != int64(promise.Pending) {
				j.add("C01", "I5", "", "%s returned promise %s (%s) as pending although its completion was committed before the request was submitted: %s", who, op.p.Id, op.where, core.RowString(row))
			} else {
				for _, c := range j.changed(r, "promises", op.p.Id) {
					if c.After != nil && c.After.I("state") != int64(promise.Pending) {
						j.add("C01", "I5", "", "%s returned promise %s (%s) as pending although the request itself had completed it: %s", who, op.p.Id, op.where, core.RowString(c.After))
						break
					}
				}
			}
		}
		// C04-O1 (read, create, complete, search)
		if op.p.State == promise.Pending && op.p.Timeout <= r.ResTick && (op.where == "read" || op.where == "create" || op.where == "complete" || op.where == "search") {
			key := ""
			if op.where == "create" && res.Status() == t_api.StatusCreated {
				key = "C04:create-201-overdue"
			}
			j.add("C04", "O1", key, "%s answered at tick %d with promise %s still pending although its timeout %d has been reached", who, r.ResTick-Base, op.p.Id, op.p.Timeout-Base)
		}
		if op.p.State == promise.Timedout && (op.p.CompletedOn == nil || *op.p.CompletedOn != op.p.Timeout || len(op.p.Value.Data) != 0 || len(op.p.Value.Headers) != 0 || op.p.IdempotencyKeyForComplete != nil) {
			// what every response shows of a timed-out promise: completion time equal to its timeout, empty value, no key
			j.add("C04", "O3", "", "%s reports the timed-out promise %s with completedOn %v (timeout %d), value %v, completion key %v: a time-out completes at exactly the timeout, with an empty value and no key", who, op.p.Id, deref(op.p.CompletedOn), op.p.Timeout, op.p.Value, strOrNil(keyStr(op.p.IdempotencyKeyForComplete)))
		}
		if op.p.State == promise.Timedout || (op.p.CompletedOn != nil && *op.p.CompletedOn == op.p.Timeout) {
			if op.p.Timeout > r.ResTick {
				j.add("C04", "O2", "", "%s answered at tick %d with promise %s timed out before its timeout %d", who, r.ResTick-Base, op.p.Id, op.p.Timeout-Base)
			}
		}
	}
	j.respReal(r)
	switch res.Kind {
	case t_api.CreatePromise, t_api.CreatePromiseAndTask:
		j.respCreate(r)
	case t_api.CompletePromise:
		j.respComplete(r)
	case t_api.CreateCallback:
		rq := r.Req.CreateCallback
		j.respRegistration(r, res.CreateCallback.Status, res.CreateCallback.Promise, res.CreateCallback.Callback != nil, fmt.Sprintf("__resume:%s:%s", rq.RootPromiseId, rq.PromiseId), rq.PromiseId)
	case t_api.CreateSubscription:
		rq := r.Req.CreateSubscription
		j.respRegistration(r, res.CreateSubscription.Status, res.CreateSubscription.Promise, res.CreateSubscription.Callback != nil, fmt.Sprintf("__notify:%s:%s", rq.PromiseId, rq.Id), rq.PromiseId)
	case t_api.ClaimTask:
		j.respClaim(r)
	case t_api.CompleteTask:
		j.respCompleteTask(r)
	case t_api.HeartbeatTasks:
		j.respHeartbeatTasks(r)
	case t_api.AcquireLock, t_api.ReleaseLock, t_api.HeartbeatLocks:
		j.respLock(r)
	case t_api.CreateSchedule, t_api.ReadSchedule, t_api.DeleteSchedule:
		j.respSchedule(r)
	}
}

// respCreate: C03 status table for creations, justified by some committed state in the request window.
func (j *judge) respCreate(r *ReqRec) {
	var cr *t_api.CreatePromiseRequest
	var status t_api.StatusCode
	var p *promise.Promise
	if r.Req.Kind == t_api.CreatePromise {
		cr, status, p = r.Req.CreatePromise, r.Res.CreatePromise.Status, r.Res.CreatePromise.Promise
	} else {
		cr, status, p = r.Req.CreatePromiseAndTask.Promise, r.Res.CreatePromiseAndTask.Status, r.Res.CreatePromiseAndTask.Promise
	}
	inserted := false
	for _, c := range j.changed(r, "promises", cr.Id) {
		if c.Before == nil {
			inserted = true
		}
	}
	switch status {
	case t_api.StatusCreated:
		if !inserted {
			j.add("C03", "R1", "", "%s answered 201 but no promise was created by it", r)
		}
		if r.Req.Kind == t_api.CreatePromiseAndTask && r.Res.CreatePromiseAndTask.Task == nil {
			j.add("C08", "B1", "", "%s answered 201 without the task", r)
		}
	case t_api.StatusOK:
		if inserted {
			j.add("C03", "R1", "", "%s created the promise but answered 200", r)
		}
		// same key as the one the promise carries; strict only if still pending
		if cr.IdempotencyKey == nil || p == nil || p.IdempotencyKeyForCreate == nil || *p.IdempotencyKeyForCreate != *cr.IdempotencyKey {
			j.add("C03", "R2", "", "%s acknowledged (200) although the promise does not carry the request's creation key: %v", r, p)
		}
		if cr.Strict && p != nil && p.State != promise.Pending {
			j.add("C03", "R2", "", "%s: strict create acknowledged (200) although the promise is %s", r, p.State)
		}
	case t_api.StatusPromiseAlreadyExists:
		if inserted {
			j.add("C03", "R1", "", "%s created the promise but answered 409", r)
		}
		// refused: justified when, at some state in the window, the promise existed and (key absent/different or strict and not pending)
		ok := j.existsSnap(r, func(s core.Snapshot) bool {
			row, ok := s["promises"][cr.Id]
			if !ok {
				return false
			}
			if cr.IdempotencyKey == nil || row.Null("idempotency_key_for_create") || row.S("idempotency_key_for_create") != string(*cr.IdempotencyKey) {
				return true
			}
			return cr.Strict // strict: state no longer pending, possibly through the lazy time-out this request itself let take effect
		})
		if !ok {
			j.add("C03", "R3", "", "%s refused (409) but at no state between submission and response did a promise exist that the request's key does not match", r)
		}
	}
	// no repeat changes the promise other than letting an overdue time-out take effect: covered by C01-I2/I3 + C02-attr
}

func (j *judge) respComplete(r *ReqRec) {
	cr := r.Req.CompletePromise
	status := r.Res.CompletePromise.Status
	p := r.Res.CompletePromise.Promise
	completedByMe := false
	for _, c := range j.changed(r, "promises", cr.Id) {
		if c.Before != nil && c.After != nil && c.Before.I("state") == pPending && c.After.I("state") != pPending && c.After.I("completed_on") != c.After.I("timeout") {
			completedByMe = true
		}
	}
	// the decision is judged against the STORED promise at some committed state of the request window (not
	// against the promise the response itself carries, which a stale answer would make self-consistent)
	stored := func(pred func(row core.Row) bool) bool {
		return j.existsSnap(r, func(s core.Snapshot) bool {
			row, ok := s["promises"][cr.Id]
			return ok && row.I("state") != pPending && pred(row)
		})
	}
	keyMatch := func(row core.Row) bool {
		return cr.IdempotencyKey != nil && !row.Null("idempotency_key_for_complete") && row.S("idempotency_key_for_complete") == string(*cr.IdempotencyKey)
	}
	switch {
	case status == t_api.StatusCreated:
		if !completedByMe {
			j.add("C03", "R1", "", "%s answered 201 but did not complete the promise", r)
		}
		if p == nil || p.State != cr.State {
			j.add("C03", "R1", "", "%s answered 201 with promise %v", r, p)
		}
	case status == t_api.StatusOK:
		if completedByMe {
			j.add("C03", "R1", "", "%s completed the promise but answered 200", r)
		}
		if p == nil {
			j.add("C03", "R2", "", "%s acknowledged (200) without a promise", r)
			return
		}
		if !stored(func(row core.Row) bool {
			return (!cr.Strict && row.I("state") == pTimedout) || (keyMatch(row) && !(cr.Strict && row.I("state") != int64(cr.State)))
		}) {
			j.add("C03", "R2", "", "%s acknowledged (200, promise %v) although at no committed state of its window did the stored promise carry the request's completion key (in the requested state if strict) or was it a timed-out promise completed non-strictly", r, p)
		}
	case status == t_api.StatusPromiseNotFound:
		if !j.existsSnap(r, func(s core.Snapshot) bool { _, ok := s["promises"][cr.Id]; return !ok }) {
			j.add("C03", "R3", "", "%s answered 404 but the promise existed throughout the request", r)
		}
	default: // 403 already <state>
		if completedByMe {
			j.add("C03", "R1", "", "%s completed the promise but answered %d", r, status)
		}
		if p == nil || p.State == promise.Pending {
			j.add("C03", "R3", "", "%s refused (%d) with promise %v", r, status, p)
			return
		}
		want := map[t_api.StatusCode]int64{t_api.StatusPromiseAlreadyResolved: 2, t_api.StatusPromiseAlreadyRejected: 4, t_api.StatusPromiseAlreadyCanceled: 8, t_api.StatusPromiseAlreadyTimedout: 16}[status]
		if want == 0 {
			j.add("C03", "R3", "", "%s refused with status %d", r, status)
			return
		}
		// justified if some committed state holds the promise completed in the state the status names and the
		// request is not one that must be acknowledged there
		if !stored(func(row core.Row) bool {
			if row.I("state") != want {
				return false
			}
			if keyMatch(row) && !(cr.Strict && row.I("state") != int64(cr.State)) {
				return false // repeats the key the promise carries: must be acknowledged
			}
			if !cr.Strict && row.I("state") == pTimedout {
				return false // non-strict completion of a timed-out promise: must be acknowledged
			}
			return true
		}) {
			j.add("C03", "R3", "", "%s refused with %d (promise %v) but at no committed state of its window was the stored promise in that state with a key the request does not match", r, status, p)
		}
	}
}

func (j *judge) respRegistration(r *ReqRec, status t_api.StatusCode, p *promise.Promise, hasCb bool, cid, pid string) {
	if status != t_api.StatusOK && status != t_api.StatusCreated {
		return
	}
	if p == nil {
		j.add("C05", "J3", "", "%s acknowledged (%d) without reporting the promise", r, status)
		return
	}
	snap := j.s.Snaps[r.ResSnap]
	cbRow, cbThere := snap["callbacks"][cid]
	tkRow, taskThere := snap["tasks"][cid]
	// the stored registration / task must be THIS pair's: derived ids of different pairs can coincide
	// ("a" + "b:c" and "a:b" + "c" both give __resume:a:b:c), then the second pair is silently dropped
	collision := false
	if cbThere && cbRow.S("promise_id") != pid {
		cbThere, collision = false, true
	}
	if taskThere && !strings.Contains(tkRow.S("mesg"), `"`+pid+`"`) {
		taskThere, collision = false, true
	}
	if p.State == promise.Pending && !cbThere && !taskThere && collision {
		j.add("C05", "J3", "C05:derived-id-collision", "%s acknowledged (%d) and reports promise %s pending, but the registration stored under %s belongs to another awaiting/awaited pair: this one is dropped", r, status, pid, cid)
	} else if p.State == promise.Pending && !cbThere && !taskThere {
		j.add("C05", "J3", "C05:registration-lost-to-concurrent-completion", "%s acknowledged (%d) and reports promise %s pending, but no registration %s is stored and no task was created for it: the caller waits for a wake-up that cannot come", r, status, pid, cid)
	}
	if status == t_api.StatusCreated {
		if !hasCb {
			j.add("C05", "J3", "", "%s answered 201 without the callback", r)
		}
		ins := false
		for _, c := range j.changed(r, "callbacks", cid) {
			if c.Before == nil {
				ins = true
			}
		}
		if !ins {
			j.add("C05", "J3", "", "%s answered 201 but stored no registration", r)
		}
	}
}

func (j *judge) respClaim(r *ReqRec) {
	cr := r.Req.ClaimTask
	st := r.Res.ClaimTask.Status
	claimed := false
	for _, c := range j.changed(r, "tasks", cr.Id) {
		if c.Before != nil && c.After != nil && c.Before.I("state") != tClaimed && c.After.I("state") == tClaimed {
			claimed = true
		}
	}
	if (st == t_api.StatusCreated) != claimed {
		j.add("C07", "T1", "", "%s answered %d but claimed=%v", r, st, claimed)
	}
	just := func(pred func(row core.Row, ok bool) bool) bool {
		return j.existsSnap(r, func(s core.Snapshot) bool { row, ok := s["tasks"][cr.Id]; return pred(row, ok) })
	}
	switch st {
	case t_api.StatusCreated:
		t := r.Res.ClaimTask.Task
		if t == nil || t.Id != cr.Id || t.Counter != cr.Counter {
			j.add("C07", "T1", "", "%s answered 201 with task %v", r, t)
		}
	case t_api.StatusTaskNotFound:
		if !just(func(_ core.Row, ok bool) bool { return !ok }) {
			j.add("C07", "T6", "", "%s answered not-found but the task existed throughout", r)
		}
	case t_api.StatusTaskAlreadyClaimed:
		if !just(func(row core.Row, ok bool) bool { return ok && row.I("state") == tClaimed }) {
			j.add("C07", "T6", "", "%s refused as already claimed but the task was never claimed during the request", r)
		}
	case t_api.StatusTaskAlreadyCompleted:
		if !just(func(row core.Row, ok bool) bool { return ok && row.I("state")&(tDone|tTimedout) != 0 }) {
			j.add("C07", "T6", "", "%s refused as already completed but the task was never finished during the request", r)
		}
	case t_api.StatusTaskInvalidCounter:
		if !just(func(row core.Row, ok bool) bool { return ok && row.I("counter") != int64(cr.Counter) }) {
			j.add("C07", "T6", "", "%s refused for its counter but the task carried exactly counter %d throughout", r, cr.Counter)
		}
	}
}

func (j *judge) respCompleteTask(r *ReqRec) {
	cr := r.Req.CompleteTask
	st := r.Res.CompleteTask.Status
	done := false
	for _, c := range j.changed(r, "tasks", cr.Id) {
		if c.Before != nil && c.After != nil && c.Before.I("state") == tClaimed && c.After.I("state") == tDone {
			done = true
		}
	}
	if (st == t_api.StatusCreated) != done {
		j.add("C07", "T1", "", "%s answered %d but completed=%v", r, st, done)
	}
	if st == t_api.StatusOK {
		if !j.existsSnap(r, func(s core.Snapshot) bool {
			row, ok := s["tasks"][cr.Id]
			return ok && row.I("state")&(tDone|tTimedout) != 0
		}) {
			j.add("C07", "T5", "", "%s acknowledged (200) although the task was never finished during the request (a stale completion must be rejected)", r)
		}
	}
}

func (j *judge) respHeartbeatTasks(r *ReqRec) {
	n := int64(0)
	for _, tx := range j.txsBy[r.Id] {
		for _, c := range tx.Diff {
			if c.Table == "tasks" {
				n++
			}
		}
		// rows whose lease end did not move (same value) are still affected: count from the pre-state
		if len(tx.Cmds) == 1 && tx.Cmds[0].Kind == t_aio.HeartbeatTasks {
			n = 0
			for _, id := range tx.Pre.Keys("tasks") {
				row := tx.Pre["tasks"][id]
				if row.I("state") == tClaimed && row.S("process_id") == r.Req.HeartbeatTasks.ProcessId {
					n++
				}
			}
		}
	}
	if r.Res.HeartbeatTasks.TasksAffected != n {
		j.add("C07", "T4", "", "%s reports %d tasks but %d tasks were claimed by that process", r, r.Res.HeartbeatTasks.TasksAffected, n)
	}
}

func (j *judge) respLock(r *ReqRec) {
	txs := j.txsBy[r.Id]
	if len(txs) == 0 {
		return
	}
	tx := txs[len(txs)-1]
	switch r.Req.Kind {
	case t_api.AcquireLock:
		ar := r.Req.AcquireLock
		row, held := tx.Pre["locks"][ar.ResourceId]
		st := r.Res.AcquireLock.Status
		free := !held || row.S("execution_id") == ar.ExecutionId
		expired := held && row.I("expires_at") <= tx.Tick
		if st == t_api.StatusCreated && !free && !expired {
			j.add("C09", "L3", "", "%s acquired lock although %s holds it until %d (tick %d)", r, row.S("execution_id"), row.I("expires_at")-Base, tx.Tick-Base)
		}
		if st == t_api.StatusLockAlreadyAcquired && free {
			j.add("C09", "L5", "", "%s refused although the lock was free or held by the same execution", r)
		}
		if st == t_api.StatusCreated {
			l := r.Res.AcquireLock.Lock
			post := tx.Post["locks"][ar.ResourceId]
			if l == nil || post == nil || l.ExecutionId != post.S("execution_id") || l.ExpiresAt != post.I("expires_at") || l.ProcessId != post.S("process_id") {
				j.add("C09", "L1", "", "%s answered 201 with lock %v but stored %s", r, l, core.RowString(post))
			}
		}
	case t_api.ReleaseLock:
		rr := r.Req.ReleaseLock
		row, held := tx.Pre["locks"][rr.ResourceId]
		mine := held && row.S("execution_id") == rr.ExecutionId
		_, still := tx.Post["locks"][rr.ResourceId]
		st := r.Res.ReleaseLock.Status
		if (st == t_api.StatusNoContent) != mine {
			j.add("C09", "L2", "", "%s answered %d but the lock was held by the requester = %v", r, st, mine)
		}
		if mine && still {
			j.add("C09", "L2", "", "%s by the holder did not remove the lock", r)
		}
	case t_api.HeartbeatLocks:
		n := int64(0)
		for _, id := range tx.Pre.Keys("locks") {
			if tx.Pre["locks"][id].S("process_id") == r.Req.HeartbeatLocks.ProcessId {
				n++
			}
		}
		if r.Res.HeartbeatLocks.LocksAffected != n {
			j.add("C09", "L4", "", "%s reports %d locks but the process held %d", r, r.Res.HeartbeatLocks.LocksAffected, n)
		}
		if len(tx.Pre["locks"]) != len(tx.Post["locks"]) {
			j.add("C09", "L4", "", "%s created or removed a lock", r)
		}
	}
}

func (j *judge) respSchedule(r *ReqRec) {
	switch r.Req.Kind {
	case t_api.CreateSchedule:
		cr := r.Req.CreateSchedule
		st := r.Res.CreateSchedule.Status
		ins := false
		for _, c := range j.changed(r, "schedules", cr.Id) {
			if c.Before == nil {
				ins = true
			}
		}
		s := r.Res.CreateSchedule.Schedule
		switch st {
		case t_api.StatusCreated:
			if !ins {
				j.add("C10", "S4", "", "%s answered 201 but created nothing", r)
			}
		case t_api.StatusOK:
			if ins || s == nil || cr.IdempotencyKey == nil || s.IdempotencyKey == nil || *s.IdempotencyKey != *cr.IdempotencyKey {
				j.add("C10", "S4", "", "%s acknowledged (200) although the schedule does not carry the request's key: %v", r, s)
			}
		case t_api.StatusScheduleAlreadyExists:
			if ins || (s != nil && cr.IdempotencyKey != nil && s.IdempotencyKey != nil && *s.IdempotencyKey == *cr.IdempotencyKey) {
				j.add("C10", "S4", "", "%s refused (409) although it repeats the key of the stored schedule %v", r, s)
			}
			// judged against the stored schedule (the response need not carry one): a refusal is justified only if, at
			// some committed state of the request window, a schedule existed whose key the request does not repeat
			if !j.existsSnap(r, func(sn core.Snapshot) bool {
				row, ok := sn["schedules"][cr.Id]
				return ok && (cr.IdempotencyKey == nil || row.Null("idempotency_key") || row.S("idempotency_key") != string(*cr.IdempotencyKey))
			}) {
				j.add("C10", "S4", "", "%s refused (409) although at no committed state between its submission and its response did a schedule exist whose idempotency key it does not repeat (re-creating a schedule id is idempotent by key)", r)
			}
		}
	case t_api.DeleteSchedule:
		del := false
		for _, c := range j.changed(r, "schedules", r.Req.DeleteSchedule.Id) {
			if c.After == nil {
				del = true
			}
		}
		if (r.Res.DeleteSchedule.Status == t_api.StatusNoContent) != del {
			j.add("C10", "S4", "", "%s answered %d but deleted=%v", r, r.Res.DeleteSchedule.Status, del)
		}
	}
}

// ---------------------------------------------------------------------------
// hand-offs

func (j *judge) judgeSend(sd *SendRec) {
	t := sd.Sub.Task
	// C01-I4 for the promise carried by notifications / invocations
	if sd.Sub.Promise != nil && t.Mesg != nil && t.Mesg.Type == "notify" {
		j.checkOutPromise(outPromise{sd.Sub.Promise, "notify"}, sd.SnapIdx, "notification "+t.Id)
		if sd.Sub.Promise.State == promise.Pending {
			j.add("C01", "I4", "", "notification %s carries a pending promise %s", t.Id, sd.Sub.Promise.Id)
		}
	}
	suffix := fmt.Sprintf("/%s/%d", t.Id, t.Counter)
	if !strings.HasSuffix(sd.Sub.ClaimHref, "/tasks/claim"+suffix) || !strings.HasSuffix(sd.Sub.CompleteHref, "/tasks/complete"+suffix) || !strings.HasSuffix(sd.Sub.HeartbeatHref, "/tasks/heartbeat"+suffix) {
		j.add("C08", "B5", "", "dispatched message for task %s counter %d carries links %s %s %s", t.Id, t.Counter, sd.Sub.ClaimHref, sd.Sub.CompleteHref, sd.Sub.HeartbeatHref)
	}
	if sd.Body != "" && t.Mesg != nil && t.Mesg.Type != "notify" {
		var body struct {
			Type string `json:"type"`
			Task struct {
				Id      string `json:"id"`
				Counter int    `json:"counter"`
			} `json:"task"`
			Href map[string]string `json:"href"`
		}
		if err := json.Unmarshal([]byte(sd.Body), &body); err != nil || body.Task.Id != t.Id || body.Task.Counter != t.Counter || body.Type != string(t.Mesg.Type) || !strings.HasSuffix(body.Href["claim"], suffix) {
			j.add("C08", "B5", "", "message body for task %s counter %d does not name it: %s", t.Id, t.Counter, sd.Body)
		}
	}
	// (the counter is compared with the row the cycle read, in judgeDispatch: between that read and the
	// hand-off the task may legitimately have been claimed and reclaimed, which the statement allows)
}

// judgeDispatch is C08-B3: per dispatch cycle, what was selected.
func (j *judge) judgeDispatch() {
	insts := make([]string, 0, len(j.sends))
	for inst := range j.sends {
		insts = append(insts, inst)
	}
	sort.Strings(insts)
	for _, inst := range insts {
		if !strings.HasPrefix(inst, "EnqueueTasks:") {
			continue
		}
		var read *TxRec
		for _, tx := range j.txsBy[inst] {
			if len(tx.Cmds) == 1 && tx.Cmds[0].Kind == t_aio.ReadEnqueueableTasks {
				read = tx
			}
		}
		if read == nil {
			continue
		}
		roots := map[string]int{}
		seen := map[string]bool{}
		for _, sd := range j.sends[inst] {
			id := sd.Sub.Task.Id
			if seen[id] {
				j.add("C08", "B3", "", "cycle %s handed off task %s twice", inst, id)
			}
			seen[id] = true
			row, ok := read.Pre["tasks"][id]
			if !ok || row.I("state") != tInit {
				j.add("C08", "B3", "", "cycle %s dispatched task %s which was not unclaimed/init when the cycle read the tasks: %s", inst, id, core.RowString(row))
				continue
			}
			root := row.S("root_promise_id")
			roots[root]++
			for _, oid := range read.Pre.Keys("tasks") {
				o := read.Pre["tasks"][oid]
				if oid != id && o.S("root_promise_id") == root && o.I("state")&(tEnqueued|tClaimed) != 0 {
					j.add("C08", "B3", "", "cycle %s dispatched task %s although task %s of the same root promise %s is %s", inst, id, oid, root, stateName(o.I("state")))
				}
			}
			if int64(sd.Sub.Task.Counter) != row.I("counter") {
				j.add("C08", "B5", "", "cycle %s dispatched task %s with counter %d, stored %d", inst, id, sd.Sub.Task.Counter, row.I("counter"))
			}
		}
		for root, n := range roots {
			if n > 1 {
				j.add("C08", "B3", "", "cycle %s dispatched %d tasks of root promise %s", inst, n, root)
			}
		}
		// B4: the cycle's commit books every hand-off on the task it belongs to: success => enqueued, failure =>
		// attempt+1 (retried later), notification => finished -- provided the row is still the (init, counter) that was sent
		var commit *TxRec
		for _, tx := range j.txsBy[inst] {
			if !tx.ReadOnly && tx.Fault == "" {
				commit = tx
			}
		}
		if commit != nil {
			for _, sd := range j.sends[inst] {
				if sd.Seq > commit.Seq {
					continue
				}
				id := sd.Sub.Task.Id
				b, ok := commit.Pre["tasks"][id]
				a := commit.Post["tasks"][id]
				if !ok || a == nil || b.I("state") != tInit || b.I("counter") != int64(sd.Sub.Task.Counter) || b.I("timeout") <= commit.Dispatch {
					continue
				}
				if p, ok := commit.Post["promises"][b.S("root_promise_id")]; ok && p.I("state") != pPending && a.I("state") == tDone {
					continue // finished together with its promise in the meantime
				}
				switch {
				case mesgType(b) == "notify":
					if a.I("state") != tDone {
						j.add("C08", "B4", "", "notification %s was handed off by %s (%s) but is not finished by the cycle's commit: %s", id, inst, sd.Outcome, core.RowString(a))
					}
				case sd.Outcome == "success":
					if a.I("state") != tEnqueued {
						j.add("C08", "B4", "", "task %s was handed off successfully by %s but the cycle's commit left it %s (not enqueued)", id, inst, core.RowString(a))
					}
				default:
					if a.I("state") != tInit || a.I("attempt") != b.I("attempt")+1 {
						j.add("C08", "B4", "", "hand-off of task %s failed (%s) in %s but the cycle's commit left it %s (want init, attempt+1: to be retried)", id, sd.Outcome, inst, core.RowString(a))
					}
				}
			}
		}
	}
}

// judgeRestarts is C06-D2: a restart (incl. schema creation) changes nothing.
func (j *judge) judgeRestarts() {
	for i, rs := range j.s.Restarts {
		if len(rs.Diff) > 0 {
			j.add("C06", "D2", "", "restart %d changed the database: %s", i+1, core.ChangesString(rs.Diff))
		}
	}
}

// ---------------------------------------------------------------------------
// final-state invariants (any snapshot)

// JudgeSnapshot checks state invariants that must hold in every committed state.
func JudgeSnapshot(sn core.Snapshot) []Violation {
	var out []Violation
	for _, id := range sn.Keys("callbacks") {
		cb := sn["callbacks"][id]
		p, ok := sn["promises"][cb.S("promise_id")]
		if !ok || p.I("state") != pPending {
			out = append(out, Violation{"C05", "J1", "", fmt.Sprintf("registration %s outlives its promise %s", id, cb.S("promise_id"))})
		}
	}
	for _, id := range sn.Keys("promises") {
		p := sn["promises"][id]
		if _, routed := Routes(p.JSONMap("tags")); routed {
			found := false
			for _, tid := range sn.Keys("tasks") {
				tk := sn["tasks"][tid]
				if tk.S("root_promise_id") == id && mesgType(tk) == "invoke" {
					found = true
				}
			}
			if !found {
				out = append(out, Violation{"C08", "B1", "", fmt.Sprintf("routed promise %s has no invocation task", id)})
			}
		}
	}
	return out
}

// ---------------------------------------------------------------------------
// C02-R1: "no response reflects a state that never existed". Every lock, schedule, task or registration
// record a response carries must equal the stored row in some committed state of the request's window
// (promises: C01-I4). This part of C02 is judged against the database, not against a re-run of the same
// code, so it also sees sequentially-wrong answers (a response describing values that were never stored).

func optInt(r core.Row, col string, want *int64) bool {
	if want == nil {
		return r.Null(col)
	}
	return !r.Null(col) && r.I(col) == *want
}

func lockIsRow(l *lock.Lock, r core.Row) bool {
	return r != nil && l.ExecutionId == r.S("execution_id") && l.ProcessId == r.S("process_id") && l.Ttl == r.I("ttl") && l.ExpiresAt == r.I("expires_at")
}

func scheduleIsRow(s *schedule.Schedule, r core.Row, projected bool) bool {
	if r == nil {
		return false
	}
	if projected {
		// search returns a projection (id, cron, tags, run times, key, creation time) by design
		return s.Cron == r.S("cron") && sameMap(s.Tags, r.JSONMap("tags")) && optInt(r, "last_run_time", s.LastRunTime) && s.NextRunTime == r.I("next_run_time") &&
			sameKey(r, "idempotency_key", keyStr(s.IdempotencyKey)) && s.CreatedOn == r.I("created_on")
	}
	var ph map[string]string
	_ = json.Unmarshal([]byte(r.S("promise_param_headers")), &ph)
	return s.Description == r.S("description") && s.Cron == r.S("cron") && sameMap(s.Tags, r.JSONMap("tags")) && s.PromiseId == r.S("promise_id") &&
		s.PromiseTimeout == r.I("promise_timeout") && string(s.PromiseParam.Data) == r.S("promise_param_data") && sameMap(s.PromiseParam.Headers, ph) &&
		sameMap(s.PromiseTags, r.JSONMap("promise_tags")) && optInt(r, "last_run_time", s.LastRunTime) && s.NextRunTime == r.I("next_run_time") &&
		sameKey(r, "idempotency_key", keyStr(s.IdempotencyKey)) && s.CreatedOn == r.I("created_on")
}

func taskIsRow(t *task.Task, r core.Row) bool {
	if r == nil || int64(t.Counter) != r.I("counter") || t.Timeout != r.I("timeout") || !optInt(r, "created_on", t.CreatedOn) || !optInt(r, "completed_on", t.CompletedOn) {
		return false
	}
	if t.ProcessId == nil {
		return r.Null("process_id")
	}
	return !r.Null("process_id") && r.S("process_id") == *t.ProcessId
}

func callbackIsRow(c *callback.Callback, r core.Row) bool {
	return r != nil && c.PromiseId == r.S("promise_id") && c.Timeout == r.I("timeout") && c.CreatedOn == r.I("created_on") // rootPromiseId is not filled in by the coroutine
}

func (j *judge) respReal(r *ReqRec) {
	res := r.Res
	real := func(what, tbl, key string, is func(core.Row) bool) {
		if !j.existsSnap(r, func(s core.Snapshot) bool { return is(s[tbl][key]) }) {
			last := j.s.Snaps[min(r.ResSnap, len(j.s.Snaps)-1)][tbl][key]
			j.add("C02", "R1", "", "%s returned %s that was not stored in any committed state between its submission and its response (stored at the response: %s)", r, what, core.RowString(last))
		}
	}
	lk := func(l *lock.Lock) {
		if l != nil {
			real(l.String(), "locks", l.ResourceId, func(row core.Row) bool { return lockIsRow(l, row) })
		}
	}
	sc := func(s *schedule.Schedule) {
		if s != nil {
			real(s.String(), "schedules", s.Id, func(row core.Row) bool { return scheduleIsRow(s, row, res.Kind == t_api.SearchSchedules) })
		}
	}
	tk := func(t *task.Task) {
		if t != nil {
			real(t.String(), "tasks", t.Id, func(row core.Row) bool { return taskIsRow(t, row) })
		}
	}
	cb := func(c *callback.Callback) {
		if c != nil {
			// a registration may be converted into its task within the window; the record then lives on in the task row
			if !j.existsSnap(r, func(s core.Snapshot) bool {
				if row := s["callbacks"][c.Id]; row != nil {
					return callbackIsRow(c, row)
				}
				t := s["tasks"][c.Id]
				return t != nil && t.I("timeout") == c.Timeout
			}) {
				j.add("C02", "R1", "", "%s returned %s that was not stored in any committed state between its submission and its response", r, c)
			}
		}
	}
	switch res.Kind {
	case t_api.AcquireLock:
		lk(res.AcquireLock.Lock)
	case t_api.CreateSchedule:
		sc(res.CreateSchedule.Schedule)
	case t_api.ReadSchedule:
		sc(res.ReadSchedule.Schedule)
	case t_api.SearchSchedules:
		for _, s := range res.SearchSchedules.Schedules {
			sc(s)
		}
	case t_api.ClaimTask:
		tk(res.ClaimTask.Task)
	case t_api.CompleteTask:
		tk(res.CompleteTask.Task)
	case t_api.CreatePromiseAndTask:
		tk(res.CreatePromiseAndTask.Task)
	case t_api.CreateCallback:
		cb(res.CreateCallback.Callback)
	case t_api.CreateSubscription:
		cb(res.CreateSubscription.Callback)
	}
}

func strOrNil(p *string) any {
	if p == nil {
		return nil
	}
	return *p
}
