// Package sim is the deterministic kernel simulator: the real system.System, api queue,
// coroutines, sqlite store worker (file database), router and sender worker are driven through
// an AIO implementation (vaio) in which every scheduling decision is a rapid draw. It records a
// trace (requests, store transactions with pre/post snapshots, hand-offs) that the oracles judge.
package sim

import (
	"database/sql"
	"encoding/json"
	"fmt"
	"os"
	"path/filepath"
	"reflect"
	"sort"
	"strings"
	"time"

	"github.com/prometheus/client_golang/prometheus"
	"github.com/resonatehq/resonate/internal/aio"
	"github.com/resonatehq/resonate/internal/api"
	"github.com/resonatehq/resonate/internal/app/coroutines"
	"github.com/resonatehq/resonate/internal/app/subsystems/aio/router"
	"github.com/resonatehq/resonate/internal/app/subsystems/aio/sender"
	"github.com/resonatehq/resonate/internal/app/subsystems/aio/store/sqlite"
	"github.com/resonatehq/resonate/internal/kernel/bus"
	"github.com/resonatehq/resonate/internal/kernel/system"
	"github.com/resonatehq/resonate/internal/kernel/t_aio"
	"github.com/resonatehq/resonate/internal/kernel/t_api"
	"github.com/resonatehq/resonate/internal/metrics"
	"github.com/resonatehq/resonate/internal/verif/core"
	"github.com/resonatehq/resonate/pkg/message"
	"github.com/resonatehq/resonate/pkg/receiver"
	"pgregory.net/rapid"
)

type SQE = bus.SQE[t_aio.Submission, t_aio.Completion]
type CQE = bus.CQE[t_aio.Submission, t_aio.Completion]

const Base = int64(1_700_000_000_000) // simulated epoch (ms)

// ---------------------------------------------------------------------------
// decisions

// D wraps rapid so that every random choice is a labelled draw; a nil T (and no journal) means "no
// choices": FIFO order, no holds, no faults (used by sequential re-runs and drains). With a Journal the
// decisions of one run are recorded and can be replayed verbatim by further runs inside the same
// property evaluation (C06 re-runs a case once per crash point).
type D struct {
	T *rapid.T
	J *Journal
}

type Journal struct {
	Vals   []int64
	pos    int
	replay bool
}

func (j *Journal) Replay() *Journal { return &Journal{Vals: j.Vals, replay: true} }

func (d D) On() bool { return d.T != nil || (d.J != nil && d.J.replay) }

func (d D) draw(f func() int64) int64 {
	if d.J != nil && d.J.replay {
		if d.J.pos < len(d.J.Vals) {
			v := d.J.Vals[d.J.pos]
			d.J.pos++
			return v
		}
		return 0
	}
	v := f()
	if d.J != nil {
		d.J.Vals = append(d.J.Vals, v)
	}
	return v
}

func (d D) Int(lo, hi int, label string) int {
	if !d.On() || lo >= hi {
		return lo
	}
	v := int(d.draw(func() int64 { return int64(rapid.IntRange(lo, hi).Draw(d.T, label)) }))
	return min(hi, max(lo, v))
}

// rapid's integer generators are deliberately biased towards small values (a range draw of 0..39
// yields 0 about 11% of the time), which is wrong for probabilities and categorical choices. Uni and
// OneIn therefore spread a raw 32-bit draw with a multiplicative hash; the all-zero draw (what rapid
// shrinks towards) maps to "first choice" / "no".
func spread(x uint32) uint64 { return (uint64(x) * 0x9E3779B97F4A7C15) >> 29 }

// Uni draws an index 0..n-1 (approximately) uniformly.
func (d D) Uni(n int, label string) int {
	if !d.On() || n <= 1 {
		return 0
	}
	x := uint32(d.draw(func() int64 { return int64(rapid.Uint32().Draw(d.T, label)) }))
	if x == 0 {
		return 0
	}
	return int(spread(x) % uint64(n))
}

// OneIn is true with probability 1/n (never when n <= 0).
func (d D) OneIn(n int, label string) bool {
	if !d.On() || n <= 0 {
		return false
	}
	if n == 1 {
		return true
	}
	x := uint32(d.draw(func() int64 { return int64(rapid.Uint32().Draw(d.T, label)) }))
	return x != 0 && spread(x)%uint64(n) == 0
}

func (d D) Bool(label string) bool {
	if !d.On() {
		return false
	}
	return d.draw(func() int64 {
		if rapid.Bool().Draw(d.T, label) {
			return 1
		}
		return 0
	}) != 0
}

// ---------------------------------------------------------------------------
// trace

type ReqRec struct {
	Idx        int
	Id         string
	Req        *t_api.Request // pristine copy of what was submitted
	SubmitSeq  int
	SubmitTick int64
	SubmitSnap int // index of the latest snapshot when submitted
	Inc        int // kernel incarnation it was submitted to
	Done       bool
	Lost       bool // in flight when the kernel crashed
	Res        *t_api.Response
	Err        error
	ResSeq     int
	ResTick    int64
	ResSnap    int
}

func (r *ReqRec) String() string {
	return fmt.Sprintf("%s %s", r.Id, ReqString(r.Req))
}

type TxRec struct {
	Seq      int
	Idx      int // index into Sim.Txs; Pre = Snaps[Idx], Post = Snaps[Idx+1]
	ReqId    string
	Name     string // coroutine name tag
	Bg       bool
	Inc      int
	Dispatch int64 // tick at which the submission was dispatched by the coroutine
	Tick     int64 // tick at which it committed
	HeldFor  int   // number of kernel ticks between dispatch and execution
	Batch    int   // id of the SQL transaction (batch) it was executed in
	Cmds     []*t_aio.Command
	Results  []*t_aio.Result
	Fault    string // "" | "after"
	ReadOnly bool
	Pre      core.Snapshot
	Post     core.Snapshot
	Diff     []core.Change
}

func (t *TxRec) CmdString() string {
	parts := make([]string, len(t.Cmds))
	for i, c := range t.Cmds {
		parts[i] = c.Kind.String()
	}
	return strings.Join(parts, ",")
}

type SendRec struct {
	Seq     int
	Tick    int64
	ReqId   string // background instance id
	Sub     *t_aio.SenderSubmission
	Outcome string // success | refused | error | dropped(fail-before) | lost-reply(fail-after)
	Plugin  string // plugin type that received it ("" when none)
	Data    string // receiver data handed to the plugin
	Body    string // message body handed to the plugin
	SnapIdx int    // latest snapshot index at hand-off
}

type Event struct {
	Seq  int
	Tick int64
	What string
}

// ---------------------------------------------------------------------------
// profile: what the schedule may do

type Profile struct {
	Bg         []string // background coroutines to register, in registration order
	Hold       int      // a pending submission is held back to a later tick with probability 1/Hold
	Cut        int      // a batch is closed after a store submission with probability 1/Cut (1 = always single)
	FailBefore int      // store submission fails before execution with probability 1/FailBefore
	FailAfter  int      // store submission is executed but reported failed with probability 1/FailAfter
	RouterFail int      // router submission fails with probability 1/RouterFail
	SendFail   int      // hand-off is refused / errors with probability 2/SendFail (split evenly)
	SendLose   int      // sender submission itself fails before/after with probability 1/SendLose
	Crash      int      // the kernel crashes at a flush position with probability 1/Crash
	MaxCrashes int      // at most this many crashes per case (default 2)
	CommitFail int      // the COMMIT of a store batch fails (rolled back by the database) with probability 1/CommitFail
	NoShadow   bool     // sequential re-runner: no shadow store, no trace (transactions executed one at a time)
	Permute    bool     // permute pending submissions
	ApiSize    int      // api queue size (default 1000)
	Targets    map[string]*receiver.Recv
}

var AllBg = []string{"TimeoutPromises", "SchedulePromises", "TimeoutLocks", "EnqueueTasks", "TimeoutTasks"}

// ---------------------------------------------------------------------------
// recording plugin (stands in for the poll/http transports behind the real sender worker)

type recPlugin struct {
	typ  string
	next string // success | refused | error | full
	last *aio.Message
}

func (p *recPlugin) String() string           { return "verif:" + p.typ }
func (p *recPlugin) Type() string             { return p.typ }
func (p *recPlugin) Start(chan<- error) error { return nil }
func (p *recPlugin) Stop() error              { return nil }
func (p *recPlugin) Enqueue(m *aio.Message) bool {
	p.last = m
	switch p.next {
	case "full":
		return false
	case "error":
		m.Done(false, fmt.Errorf("injected transport error"))
	case "refused":
		m.Done(false, nil)
	default:
		m.Done(true, nil)
	}
	return true
}

// ---------------------------------------------------------------------------
// kernel incarnation

type Kernel struct {
	Sys    *system.System
	Api    api.API
	Store  *sqlite.SqliteStore
	Router *router.Router
	Sender *sender.SenderWorker
	poll   *recPlugin
	http   *recPlugin
	hooks  *core.Hooks
}

func NewStore(path string) *sqlite.SqliteStore {
	m := metrics.New(prometheus.NewRegistry())
	st, err := sqlite.New(nil, m, &sqlite.Config{Size: 10, BatchSize: 1000, Path: path, TxTimeout: 10 * time.Second})
	if err != nil {
		panic(err)
	}
	if err := st.Start(nil); err != nil {
		panic(err)
	}
	return st
}

func RegisterCoroutines(s *system.System, bg []string) {
	s.AddOnRequest(t_api.ReadPromise, coroutines.ReadPromise)
	s.AddOnRequest(t_api.SearchPromises, coroutines.SearchPromises)
	s.AddOnRequest(t_api.CreatePromise, coroutines.CreatePromise)
	s.AddOnRequest(t_api.CreatePromiseAndTask, coroutines.CreatePromiseAndTask)
	s.AddOnRequest(t_api.CreateCallback, coroutines.CreateCallback)
	s.AddOnRequest(t_api.CreateSubscription, coroutines.CreateSubscription)
	s.AddOnRequest(t_api.CompletePromise, coroutines.CompletePromise)
	s.AddOnRequest(t_api.ReadSchedule, coroutines.ReadSchedule)
	s.AddOnRequest(t_api.SearchSchedules, coroutines.SearchSchedules)
	s.AddOnRequest(t_api.CreateSchedule, coroutines.CreateSchedule)
	s.AddOnRequest(t_api.DeleteSchedule, coroutines.DeleteSchedule)
	s.AddOnRequest(t_api.AcquireLock, coroutines.AcquireLock)
	s.AddOnRequest(t_api.HeartbeatLocks, coroutines.HeartbeatLocks)
	s.AddOnRequest(t_api.ReleaseLock, coroutines.ReleaseLock)
	s.AddOnRequest(t_api.ClaimTask, coroutines.ClaimTask)
	s.AddOnRequest(t_api.CompleteTask, coroutines.CompleteTask)
	s.AddOnRequest(t_api.HeartbeatTasks, coroutines.HeartbeatTasks)
	for _, name := range bg {
		switch name {
		case "TimeoutPromises":
			s.AddBackground(name, coroutines.TimeoutPromises)
		case "SchedulePromises":
			s.AddBackground(name, coroutines.SchedulePromises)
		case "TimeoutLocks":
			s.AddBackground(name, coroutines.TimeoutLocks)
		case "EnqueueTasks":
			s.AddBackground(name, coroutines.EnqueueTasks)
		case "TimeoutTasks":
			s.AddBackground(name, coroutines.TimeoutTasks)
		default:
			panic("unknown background coroutine " + name)
		}
	}
}

// ---------------------------------------------------------------------------
// the simulator

type Sim struct {
	D    D
	Cfg  *system.Config
	Prof Profile
	Dir  string
	Path string

	K   *Kernel
	Inc int

	shadow   *sqlite.SqliteStore
	shadowDb *sql.DB
	obs      *sql.DB // observer connection on the primary database

	Now   int64
	seq   int
	batch int

	Reqs   []*ReqRec
	Txs    []*TxRec
	Snaps  []core.Snapshot // Snaps[i] = state before Txs[i]; Snaps[len(Txs)] = current
	Sends  []*SendRec
	Ticks  []int64
	Events []Event
	// Restarts[i] = snapshot index at which incarnation i+1 started, with the diff the restart itself caused
	Restarts []Restart

	pending []*pend
	cqes    []*CQE

	// crash-point enumeration (C06): every flush position is a crash opportunity, numbered in CrashPos;
	// when CrashAt >= 0 the kernel crashes at exactly that opportunity
	CrashAt        int
	CrashPos       int
	CommitFailures int
	routerFails    map[string]int
	Problems       []string // harness-level disagreements (primary vs shadow store)
	BgRuns         map[string]int
	MaxSched       int // maximum number of in-flight submissions seen
}

type Restart struct {
	SnapIdx int
	Tick    int64
	Diff    []core.Change
	Lost    int
}

type pend struct {
	sqe      *SQE
	dispatch int64
	inc      int
	tickNo   int
}

var simCounter int

func New(d D, cfg *system.Config, prof Profile, dir string) *Sim {
	simCounter++
	if prof.ApiSize == 0 {
		prof.ApiSize = 1000
	}
	s := &Sim{D: d, Cfg: cfg, Prof: prof, Dir: dir, Path: filepath.Join(dir, fmt.Sprintf("p%d.db", simCounter)), Now: Base, BgRuns: map[string]int{}, routerFails: map[string]int{}, CrashAt: -1}
	var err error
	if !prof.NoShadow {
		shadowPath := filepath.Join(dir, fmt.Sprintf("s%d.db", simCounter))
		s.shadow = NewStore(shadowPath)
		if s.shadowDb, err = sql.Open("sqlite3", shadowPath); err != nil {
			panic(err)
		}
	}
	s.boot()
	if s.obs, err = sql.Open("sqlite3", s.Path); err != nil {
		panic(err)
	}
	if prof.NoShadow {
		s.Snaps = []core.Snapshot{{}}
	} else {
		s.Snaps = []core.Snapshot{core.Snap(s.shadowDb)}
	}
	return s
}

func (s *Sim) boot() {
	m := metrics.New(prometheus.NewRegistry())
	ap := api.New(s.Prof.ApiSize, m)
	rt, err := router.New(nil, m, &router.Config{Size: 10, Workers: 1})
	if err != nil {
		panic(err)
	}
	st := NewStore(s.Path)
	var hooks *core.Hooks
	if s.Prof.CommitFail > 0 {
		// the primary store runs on an instrumented connection so that a COMMIT can be made to fail
		_ = st.Stop()
		hooks = &core.Hooks{FailAt: -1}
		var err error
		if st, err = sqlite.NewVerif(core.OpenHooked(s.Path, hooks), m, &sqlite.Config{Size: 10, BatchSize: 1000, Path: s.Path, TxTimeout: 10 * time.Second}); err != nil {
			panic(err)
		}
	}
	k := &Kernel{Api: ap, Store: st, Router: rt, poll: &recPlugin{typ: "poll"}, http: &recPlugin{typ: "http"}, hooks: hooks}
	targets := s.Prof.Targets
	if targets == nil {
		targets = map[string]*receiver.Recv{"default": {Type: "poll", Data: []byte(`{"group":"default"}`)}}
	}
	k.Sender = sender.NewVerifWorker(s, m, targets, k.poll, k.http)
	cfg := *s.Cfg
	k.Sys = system.New(ap, s, &cfg, m)
	RegisterCoroutines(k.Sys, s.Prof.Bg)
	s.K = k
}

func (s *Sim) Close() {
	if s.obs != nil {
		s.obs.Close()
	}
	if s.K != nil {
		_ = s.K.Store.Stop()
	}
	if s.shadow != nil {
		s.shadowDb.Close()
		_ = s.shadow.Stop()
	}
	for _, p := range []string{s.Path, strings.Replace(s.Path, "/p", "/s", 1)} {
		os.Remove(p)
		os.Remove(p + "-journal")
	}
}

func (s *Sim) event(what string) int {
	s.seq++
	return s.seq
}

// Obs is the observer connection on the primary database.
func (s *Sim) Obs() *sql.DB { return s.obs }

// CurSnap is the index of the latest committed snapshot.
func (s *Sim) CurSnap() int { return len(s.Snaps) - 1 }

// Submit hands a request to the api queue exactly as a front end would.
func (s *Sim) Submit(req *t_api.Request) *ReqRec {
	id := fmt.Sprintf("q%d", len(s.Reqs))
	req.Tags = map[string]string{"id": id, "name": req.Kind.String(), "protocol": "verif"}
	rr := &ReqRec{Idx: len(s.Reqs), Id: id, Req: CloneReq(req), SubmitSeq: s.event("submit"), SubmitTick: s.Now, SubmitSnap: s.CurSnap(), Inc: s.Inc}
	s.Reqs = append(s.Reqs, rr)
	s.K.Api.EnqueueSQE(&bus.SQE[t_api.Request, t_api.Response]{Id: id, Submission: req, Callback: func(r *t_api.Response, e error) {
		if rr.Done {
			s.Problems = append(s.Problems, fmt.Sprintf("C12 request %s answered twice", rr.Id))
		}
		rr.Res, rr.Err, rr.Done = r, e, true
		rr.ResSeq, rr.ResTick, rr.ResSnap = s.event("response"), s.Now, s.CurSnap()
	}})
	return rr
}

// Advance moves the simulated clock.
func (s *Sim) Advance(dt int64) { s.Now += dt }

// Tick runs one kernel tick at the current simulated time.
func (s *Sim) Tick() {
	s.Ticks = append(s.Ticks, s.Now)
	s.K.Sys.Tick(s.Now)
	if n := len(s.pending); n > s.MaxSched {
		s.MaxSched = n
	}
}

func (s *Sim) InFlight() int {
	c := 0
	for _, r := range s.Reqs {
		if !r.Done && !r.Lost {
			c++
		}
	}
	return c
}

// Quiet reports whether nothing is in flight: no request, no pending submission or completion,
// no running coroutine.
func (s *Sim) Quiet() bool {
	return s.InFlight() == 0 && len(s.pending) == 0 && len(s.cqes) == 0
}

// Drain ticks without any further scheduling freedom or faults until the requests in flight are
// answered. It stops when nothing moved for `idle` consecutive ticks (a wedge) or after a generous cap.
func (s *Sim) Drain(idle int) {
	saved := s.D
	s.D = D{}
	still := 0
	for i := 0; i < 20000 && !s.Quiet() && still < idle; i++ {
		before := fmt.Sprint(s.InFlight(), len(s.pending), len(s.cqes), s.seq)
		s.Tick()
		if fmt.Sprint(s.InFlight(), len(s.pending), len(s.cqes), s.seq) == before {
			still++
		} else {
			still = 0
		}
	}
	s.D = saved
}

func (s *Sim) crashAllowed() bool {
	m := s.Prof.MaxCrashes
	if m == 0 {
		m = 2
	}
	return len(s.Restarts) < m
}

// Crash drops the kernel with everything in flight and boots a new one on the same database file.
func (s *Sim) Crash() {
	lost := 0
	for _, r := range s.Reqs {
		if !r.Done && !r.Lost {
			r.Lost = true
			lost++
		}
	}
	s.pending, s.cqes = nil, nil
	_ = s.K.Store.Stop() // closes the old connection; committed data is all that survives
	s.Inc++
	s.event("crash")
	before := core.Snap(s.obs)
	s.boot()
	after := core.Snap(s.obs)
	s.Restarts = append(s.Restarts, Restart{SnapIdx: s.CurSnap(), Tick: s.Now, Diff: core.Diff(before, after), Lost: lost})
}

// ---------------------------------------------------------------------------
// aio.AIO implementation

func (s *Sim) String() string                               { return "vaio" }
func (s *Sim) Start() error                                 { return nil }
func (s *Sim) Stop() error                                  { return nil }
func (s *Sim) Shutdown()                                    {}
func (s *Sim) Errors() <-chan error                         { return nil }
func (s *Sim) Signal(<-chan interface{}) <-chan interface{} { panic("not used") }
func (s *Sim) Dispatch(sub *t_aio.Submission, cb func(*t_aio.Completion, error)) {
	s.EnqueueSQE(&SQE{Id: sub.Tags["id"], Submission: sub, Callback: cb})
}
func (s *Sim) EnqueueSQE(sqe *SQE) {
	s.pending = append(s.pending, &pend{sqe: sqe, dispatch: s.Now, inc: s.Inc, tickNo: len(s.Ticks)})
}
func (s *Sim) EnqueueCQE(c *CQE) { s.cqes = append(s.cqes, c) }
func (s *Sim) DequeueCQE(n int) []*CQE {
	k := min(n, len(s.cqes))
	out := s.cqes[:k:k]
	s.cqes = s.cqes[k:]
	return out
}

var readKinds = map[t_aio.StoreKind]bool{
	t_aio.ReadPromise: true, t_aio.ReadPromises: true, t_aio.SearchPromises: true,
	t_aio.ReadSchedule: true, t_aio.ReadSchedules: true, t_aio.SearchSchedules: true,
	t_aio.ReadLock: true, t_aio.ReadTask: true, t_aio.ReadTasks: true, t_aio.ReadEnqueueableTasks: true,
}

func readOnly(cmds []*t_aio.Command) bool {
	for _, c := range cmds {
		if !readKinds[c.Kind] {
			return false
		}
	}
	return true
}

func (s *Sim) Flush(t int64) {
	p := s.pending
	s.pending = nil
	d := s.D
	if d.On() && s.Prof.Permute {
		for i := len(p) - 1; i > 0; i-- {
			j := d.Int(0, i, "perm")
			p[i], p[j] = p[j], p[i]
		}
	}
	var batch []*pend
	storeTouched := false
	flushBatch := func() {
		if len(batch) == 0 {
			return
		}
		if s.Prof.NoShadow {
			for _, x := range batch {
				s.cqes = append(s.cqes, s.K.Store.Process([]*SQE{x.sqe})...)
			}
			batch = nil
			return
		}
		storeTouched = true
		s.batch++
		sqes := make([]*SQE, len(batch))
		for i, x := range batch {
			sqes[i] = x.sqe
		}
		commitFailed := false
		if s.K.hooks != nil {
			s.K.hooks.Reset(-1)
			if d.OneIn(s.Prof.CommitFail, "commitfail") {
				s.K.hooks.Reset(-2)
				commitFailed = true
			}
		}
		cqes := s.K.Store.Process(sqes)
		if commitFailed {
			s.CommitFailures++
			s.K.hooks.Reset(-1)
		}
		failedAll := true
		for _, c := range cqes {
			if c.Error == nil {
				failedAll = false
			}
		}
		if failedAll {
			// the batch was rolled back as a whole: nothing is applied to the shadow store; the
			// primary/shadow comparison at the end of the flush checks that nothing leaked.
			for i, x := range batch {
				_ = x
				s.cqes = append(s.cqes, cqes[i])
			}
			batch = nil
			return
		}
		for i, x := range batch {
			tx := x.sqe.Submission.Store.Transaction
			ro := readOnly(tx.Commands)
			pre := s.Snaps[len(s.Snaps)-1]
			sc := s.shadow.Process([]*SQE{{Id: x.sqe.Id, Submission: x.sqe.Submission, Callback: func(*t_aio.Completion, error) {}}})
			post := pre
			if !ro {
				post = core.Snap(s.shadowDb)
			}
			if (cqes[i].Error == nil) != (sc[0].Error == nil) {
				s.Problems = append(s.Problems, fmt.Sprintf("C16 batch vs single execution disagree on error for %s [%s]: batch=%v single=%v", x.sqe.Id, cmdNames(tx.Commands), cqes[i].Error, sc[0].Error))
			} else if cqes[i].Error == nil && !reflect.DeepEqual(cqes[i].Completion.Store.Results, sc[0].Completion.Store.Results) {
				s.Problems = append(s.Problems, fmt.Sprintf("C16 batch vs single execution disagree on results for %s [%s]", x.sqe.Id, cmdNames(tx.Commands)))
			}
			rec := &TxRec{Seq: s.event("commit"), Idx: len(s.Txs), ReqId: s.instId(x.sqe.Id), Name: x.sqe.Submission.Tags["name"], Bg: isBgId(x.sqe.Id), Inc: s.Inc,
				Dispatch: x.dispatch, Tick: t, HeldFor: len(s.Ticks) - x.tickNo, Batch: s.batch, Cmds: tx.Commands, ReadOnly: ro, Pre: pre, Post: post}
			if cqes[i].Error == nil {
				rec.Results = cqes[i].Completion.Store.Results
			}
			if !ro {
				rec.Diff = core.Diff(pre, post)
			}
			if d.OneIn(s.Prof.FailAfter, "failafter") {
				rec.Fault = "after"
				cqes[i].Completion = nil
				cqes[i].Error = fmt.Errorf("injected failure after commit")
			}
			s.Txs = append(s.Txs, rec)
			s.Snaps = append(s.Snaps, post)
			s.cqes = append(s.cqes, cqes[i])
		}
		batch = nil
	}
	crashed := false
	for i, x := range p {
		s.CrashPos++
		if (s.CrashAt >= 0 && s.CrashPos-1 == s.CrashAt && s.Inc == 0) || (s.CrashAt < 0 && s.crashAllowed() && d.OneIn(s.Prof.Crash, "crash")) {
			flushBatch()
			s.checkShadow()
			// everything not yet executed is lost together with the kernel
			_ = p[i:]
			s.Crash()
			crashed = true
			break
		}
		if d.OneIn(s.Prof.Hold, "hold") {
			s.pending = append(s.pending, x)
			continue
		}
		switch x.sqe.Submission.Kind {
		case t_aio.Store:
			if d.OneIn(s.Prof.FailBefore, "failbefore") {
				s.cqes = append(s.cqes, &CQE{Id: x.sqe.Id, Callback: x.sqe.Callback, Error: fmt.Errorf("injected failure before execution")})
				continue
			}
			batch = append(batch, x)
			if !d.On() || s.Prof.Cut <= 1 || d.OneIn(s.Prof.Cut, "cut") {
				flushBatch()
			}
		case t_aio.Sender:
			flushBatch()
			s.send(x, t)
		case t_aio.Router:
			flushBatch()
			if d.OneIn(s.Prof.RouterFail, "routerfail") {
				s.routerFails[x.sqe.Id]++
				s.cqes = append(s.cqes, &CQE{Id: x.sqe.Id, Callback: x.sqe.Callback, Error: fmt.Errorf("injected router failure")})
				continue
			}
			s.cqes = append(s.cqes, s.K.Router.Process([]*SQE{x.sqe})...)
		default:
			panic("unexpected submission kind " + x.sqe.Submission.Kind.String())
		}
	}
	if crashed {
		return
	}
	flushBatch()
	// the end of a flush (after the last commit, before the next tick) is a crash opportunity as well
	s.CrashPos++
	if s.CrashAt >= 0 && s.CrashPos-1 == s.CrashAt && s.Inc == 0 {
		s.checkShadow()
		s.Crash()
		return
	}
	if storeTouched {
		s.checkShadow()
	}
}

func (s *Sim) checkShadow() {
	if dd := core.Diff(s.Snaps[len(s.Snaps)-1], core.Snap(s.obs)); len(dd) > 0 {
		s.Problems = append(s.Problems, fmt.Sprintf("C16 batched execution left other tables than one-transaction-at-a-time execution: %s", core.ChangesString(dd)))
		// resynchronise so that one disagreement is reported once
		core.Load(s.shadowDb, core.Snap(s.obs))
		s.Snaps[len(s.Snaps)-1] = core.Snap(s.shadowDb)
	}
}

func (s *Sim) send(x *pend, t int64) {
	d := s.D
	sub := x.sqe.Submission.Sender
	rec := &SendRec{Seq: s.event("send"), Tick: t, ReqId: s.instId(x.sqe.Id), Sub: sub, SnapIdx: s.CurSnap()}
	s.Sends = append(s.Sends, rec)
	if d.OneIn(s.Prof.SendLose, "sendlose") {
		rec.Outcome = "dropped"
		s.cqes = append(s.cqes, &CQE{Id: x.sqe.Id, Callback: x.sqe.Callback, Error: fmt.Errorf("injected sender failure before processing")})
		return
	}
	outcome := "success"
	if s.Prof.SendFail > 0 && d.On() {
		switch v := d.Uni(s.Prof.SendFail, "sendoutcome"); {
		case v == 0:
			outcome = "refused"
		case v == 1:
			outcome = "error"
		case v == 2 && s.Prof.SendFail > 6:
			outcome = "full"
		}
	}
	s.K.poll.next, s.K.http.next = outcome, outcome
	s.K.poll.last, s.K.http.last = nil, nil
	before := len(s.cqes)
	s.K.Sender.Process(x.sqe)
	if len(s.cqes) != before+1 {
		s.Problems = append(s.Problems, fmt.Sprintf("C19 sender produced %d completions for one submission (task %s)", len(s.cqes)-before, sub.Task.Id))
	}
	for _, pl := range []*recPlugin{s.K.poll, s.K.http} {
		if pl.last != nil {
			rec.Plugin, rec.Data, rec.Body = pl.typ, string(pl.last.Data), string(pl.last.Body)
		}
	}
	if rec.Plugin == "" {
		outcome = "error" // no transport reached (unknown receiver / plugin)
	}
	rec.Outcome = outcome
	// the transport took the message but its answer is lost on the way back (failure after processing)
	if outcome == "success" && d.OneIn(s.Prof.SendLose, "sendlosereply") {
		c := s.cqes[len(s.cqes)-1]
		c.Completion, c.Error = nil, fmt.Errorf("injected sender failure after processing")
		rec.Outcome = "lost-reply"
	}
}

// instId makes background instance ids unique across kernel incarnations (after a crash a new
// instance may start at the same tick and would otherwise reuse "<name>:<tick>").
func (s *Sim) instId(id string) string {
	if s.Inc > 0 && isBgId(id) {
		return fmt.Sprintf("%s#%d", id, s.Inc)
	}
	return id
}

func isBgId(id string) bool {
	for _, n := range AllBg {
		if strings.HasPrefix(id, n+":") {
			return true
		}
	}
	return false
}

func cmdNames(cmds []*t_aio.Command) string {
	parts := make([]string, len(cmds))
	for i, c := range cmds {
		parts[i] = c.Kind.String()
	}
	return strings.Join(parts, ",")
}

// ---------------------------------------------------------------------------
// helpers on requests / responses

func CloneReq(r *t_api.Request) *t_api.Request {
	b, err := json.Marshal(r)
	if err != nil {
		panic(err)
	}
	var c t_api.Request
	if err := json.Unmarshal(b, &c); err != nil {
		panic(err)
	}
	return &c
}

func ReqString(r *t_api.Request) string {
	switch r.Kind {
	case t_api.ReadPromise:
		return r.ReadPromise.String()
	case t_api.SearchPromises:
		return r.SearchPromises.String()
	case t_api.CreatePromise:
		return r.CreatePromise.String()
	case t_api.CreatePromiseAndTask:
		return r.CreatePromiseAndTask.String()
	case t_api.CompletePromise:
		return r.CompletePromise.String()
	case t_api.CreateCallback:
		return r.CreateCallback.String()
	case t_api.CreateSubscription:
		return r.CreateSubscription.String()
	case t_api.ReadSchedule:
		return r.ReadSchedule.String()
	case t_api.SearchSchedules:
		return r.SearchSchedules.String()
	case t_api.CreateSchedule:
		return r.CreateSchedule.String()
	case t_api.DeleteSchedule:
		return r.DeleteSchedule.String()
	case t_api.AcquireLock:
		return r.AcquireLock.String()
	case t_api.ReleaseLock:
		return r.ReleaseLock.String()
	case t_api.HeartbeatLocks:
		return r.HeartbeatLocks.String()
	case t_api.ClaimTask:
		return r.ClaimTask.String()
	case t_api.CompleteTask:
		return r.CompleteTask.String()
	case t_api.HeartbeatTasks:
		return r.HeartbeatTasks.String()
	}
	return r.Kind.String()
}

// NormRes renders a response for comparison: JSON with nil == empty, request tags dropped.
func NormRes(r *t_api.Response, err error) string {
	if err != nil {
		return "ERR:" + err.Error()
	}
	b, _ := json.Marshal(r)
	var v any
	_ = json.Unmarshal(b, &v)
	v = prune(v)
	b, _ = json.Marshal(v)
	return string(b)
}

func prune(v any) any {
	switch x := v.(type) {
	case map[string]any:
		out := map[string]any{}
		for k, e := range x {
			if k == "Tags" {
				continue
			}
			if p := prune(e); p != nil {
				out[k] = p
			}
		}
		if len(out) == 0 {
			return nil
		}
		return out
	case []any:
		if len(x) == 0 {
			return nil
		}
		for i := range x {
			x[i] = prune(x[i])
		}
		return x
	case string:
		if x == "" {
			return nil
		}
	}
	return v
}

// TraceDump renders the whole trace for a failure record.
func (s *Sim) TraceDump() map[string]any {
	type line struct {
		seq int
		txt string
	}
	var lines []line
	for _, r := range s.Reqs {
		lines = append(lines, line{r.SubmitSeq, fmt.Sprintf("t=%d SUBMIT %s", r.SubmitTick-Base, r)})
		if r.Done {
			lines = append(lines, line{r.ResSeq, fmt.Sprintf("t=%d RESPONSE %s -> %s", r.ResTick-Base, r.Id, NormRes(r.Res, r.Err))})
		}
	}
	for _, tx := range s.Txs {
		f := ""
		if tx.Fault != "" {
			f = " FAULT=" + tx.Fault
		}
		lines = append(lines, line{tx.Seq, fmt.Sprintf("t=%d COMMIT batch=%d %s [%s] dispatched@%d%s\n%s", tx.Tick-Base, tx.Batch, tx.ReqId, tx.CmdString(), tx.Dispatch-Base, f, core.ChangesString(tx.Diff))})
	}
	for _, sd := range s.Sends {
		lines = append(lines, line{sd.Seq, fmt.Sprintf("t=%d SEND %s task=%s counter=%d -> %s via %s", sd.Tick-Base, sd.ReqId, sd.Sub.Task.Id, sd.Sub.Task.Counter, sd.Outcome, sd.Plugin)})
	}
	sort.Slice(lines, func(i, j int) bool { return lines[i].seq < lines[j].seq })
	out := make([]string, len(lines))
	for i, l := range lines {
		out[i] = fmt.Sprintf("#%d %s", l.seq, l.txt)
	}
	return map[string]any{"config": s.Cfg.String(), "profile": fmt.Sprintf("%+v", s.Prof), "base_ms": Base, "trace": out, "restarts": len(s.Restarts)}
}

var _ = message.Notify
