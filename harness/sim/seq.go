package sim

import (
	"fmt"
	"regexp"
	"strconv"

	"github.com/resonatehq/resonate/internal/kernel/system"
	"github.com/resonatehq/resonate/internal/kernel/t_api"
	"github.com/resonatehq/resonate/internal/verif/core"
)

// OwnEffect removes from a transaction's diff the "spontaneous" part: overdue promises moving to
// their time-out state (completed_on = timeout, no completion key) together with the conversion of
// their registrations and the completion of their tasks. Anyone may let those take effect in any
// transaction (C04/C05/C08 judge them); what is left is the transaction's own effect.
func OwnEffect(d []core.Change) (own []core.Change) {
	own, _ = SplitEffect(d)
	return
}

// SplitEffect is OwnEffect that also returns the ids of the promises that timed out spontaneously.
func SplitEffect(d []core.Change) (own []core.Change, spont []string) {
	timedOut := map[string]bool{}
	for _, c := range d {
		if c.Table == "promises" && c.Before != nil && c.After != nil && c.Before.I("state") == pPending && c.After.I("state") != pPending &&
			c.After.I("completed_on") == c.After.I("timeout") && c.After.Null("idempotency_key_for_complete") {
			timedOut[c.Key] = true
			spont = append(spont, c.Key)
		}
	}
	delCb := map[string]bool{}
	for _, c := range d {
		if c.Table == "callbacks" && c.After == nil && timedOut[c.Before.S("promise_id")] {
			delCb[c.Key] = true
		}
	}
	for _, c := range d {
		switch {
		case c.Table == "promises" && timedOut[c.Key]:
		case c.Table == "callbacks" && delCb[c.Key]:
		case c.Table == "tasks" && c.Before == nil && delCb[c.Key]:
		case c.Table == "tasks" && c.Before != nil && c.After != nil && timedOut[c.After.S("root_promise_id")] && c.After.I("state") == tDone && c.Before.I("state")&(tInit|tEnqueued|tClaimed) != 0:
		default:
			own = append(own, c)
		}
	}
	return
}

// SeqRunner runs one request alone, to completion, on a database loaded with a snapshot, at a fixed
// clock value: "a single-threaded server executing the request at that instant".
type SeqRunner struct {
	s *Sim
}

func NewSeqRunner(cfg *system.Config, dir string) *SeqRunner {
	c := *cfg
	c.CoroutineMaxSize, c.SubmissionBatchSize, c.CompletionBatchSize = 1000, 1000, 1000
	return &SeqRunner{s: New(D{}, &c, Profile{NoShadow: true}, dir)}
}

func (q *SeqRunner) Close() { q.s.Close() }

// Run returns the normalised response and own effect of req executed alone on snapshot sn at clock tau.
func (q *SeqRunner) Run(sn core.Snapshot, req *t_api.Request, tau int64) (res string, effect string) {
	res, effect, _ = q.RunSpont(sn, req, tau)
	return
}

// RunSpont is Run that also reports which promises the sequential run let time out.
func (q *SeqRunner) RunSpont(sn core.Snapshot, req *t_api.Request, tau int64) (res string, effect string, spont []string) {
	s := q.s
	s.Reqs, s.Ticks = nil, nil
	core.Load(s.obs, sn)
	pre := core.Snap(s.obs)
	s.Now = tau
	rr := s.Submit(CloneReq(req))
	for i := 0; i < 500 && !rr.Done; i++ {
		s.Tick()
	}
	if !rr.Done {
		return "NOT-DONE", "", nil
	}
	post := core.Snap(s.obs)
	own, sp := SplitEffect(core.Diff(pre, post))
	return NormRes(rr.Res, rr.Err), NormEffect(own), sp
}

var numRe = regexp.MustCompile(`-?\d{10,}`)

// BlurStamps replaces every clock reading of the window [lo,hi] that occurs in s by "T" (used only for
// requests that straddle a clock advance, where a one-shot sequential run cannot reproduce stamps taken
// at different ticks; deadline arithmetic stamp+ttl is blurred as well when ttl is given).
func BlurStamps(s string, lo, hi int64, ttls ...int64) string {
	return numRe.ReplaceAllStringFunc(s, func(m string) string {
		v, err := strconv.ParseInt(m, 10, 64)
		if err != nil {
			return m
		}
		if v >= lo && v <= hi {
			return "T"
		}
		for _, ttl := range ttls {
			if v-ttl >= lo && v-ttl <= hi {
				return fmt.Sprintf("T+%d", ttl)
			}
		}
		return m
	})
}

// NormEffect renders an own effect for comparison between the concurrent and the explaining run. The tasks.attempt
// column is left out: it is the dispatcher's private retry counter (never returned by any response, json:"-"),
// it is not covered by the compare-and-set of UpdateTask, and a claim writes back the value it read, so a failed
// hand-off booked between the claim's read and its write is overwritten -- invisible to every client and outside
// what C02 states (status and returned resource state).
func NormEffect(cs []core.Change) string {
	out := make([]core.Change, len(cs))
	strip := func(r core.Row) core.Row {
		if r == nil {
			return nil
		}
		n := core.Row{}
		for k, v := range r {
			if k != "attempt" {
				n[k] = v
			}
		}
		return n
	}
	for i, c := range cs {
		out[i] = c
		if c.Table == "tasks" {
			out[i].Before, out[i].After = strip(c.Before), strip(c.After)
		}
	}
	return core.NormChanges(out)
}

// BgRunner runs one background coroutine alone, once, to completion on a database loaded with a snapshot
// at a fixed clock value: "the single-threaded server's sweep at that instant". Batch sizes are unlimited so
// that the sequential sweep serves every eligible row (the concurrent one may serve any subset).
type BgRunner struct {
	s *Sim
}

func NewBgRunner(cfg *system.Config, name, dir string) *BgRunner {
	c := *cfg
	c.CoroutineMaxSize, c.SubmissionBatchSize, c.CompletionBatchSize = 1000, 1000, 1000
	c.PromiseBatchSize, c.ScheduleBatchSize, c.TaskBatchSize = 100000, 100000, 100000
	return &BgRunner{s: New(D{}, &c, Profile{NoShadow: true, Bg: []string{name}}, dir)}
}

func (q *BgRunner) Close() { q.s.Close() }

// Run returns the row changes (keyed table/key) the sweep makes when run alone on sn at clock tau.
func (q *BgRunner) Run(sn core.Snapshot, tau int64) (map[string]core.Change, bool) {
	s := q.s
	_ = s.K.Store.Stop()
	s.pending, s.cqes, s.Reqs, s.Ticks, s.Txs = nil, nil, nil, nil, nil
	s.boot() // a fresh kernel: the background coroutine is due at the first tick
	core.Load(s.obs, sn)
	pre := core.Snap(s.obs)
	s.Now = tau
	done := false
	for i := 0; i < 2000; i++ {
		s.Tick()
		if s.Quiet() {
			done = true
			break
		}
	}
	out := map[string]core.Change{}
	for _, c := range core.Diff(pre, core.Snap(s.obs)) {
		out[c.Table+"/"+c.Key] = c
	}
	return out, done
}
