package sim

import (
	"fmt"
	"math"
	"sort"
	"time"

	"github.com/resonatehq/resonate/internal/kernel/system"
	"github.com/resonatehq/resonate/internal/kernel/t_api"
	"github.com/resonatehq/resonate/pkg/idempotency"
	"github.com/resonatehq/resonate/pkg/promise"
)

// Gen produces requests the front ends admit, over small shared id pools.
type Gen struct {
	D       D
	Pids    []string
	Keys    []string // "" = no key
	Subs    []string
	Workers []string
	Res     []string
	Execs   []string
	Scheds  []string
	Crons   []string
	W       map[string]int // weight per request kind
	// Timeouts offered for new promises, relative to "now" (ms); negative = already past
	TimeoutDeltas   []int64
	SchedRouteOneIn int   // a created schedule's promise tags route with probability 1/n (0 = never)
	ClaimTtls       []int // leases offered to ClaimTask (nil = default pool)
	HugeTtlOneIn    int   // a lease asked for (lock acquire, claim, create-with-task) does not fit into 64 bits when added to the clock, or only just does, with probability 1/n (0 = never)
	RouteOneIn      int   // a created promise carries a routing tag with probability 1/RouteOneIn (0 = never)
	RouteTags       []string
	PastTimeouts    bool // allow create with timeout <= now (F13)
	Excluded        map[string]int
	// dispatched (task id, counter) pairs seen so far: claims prefer them
	Dispatched func() [][2]any
}

func DefaultGen(d D) *Gen {
	return &Gen{D: d,
		Pids: []string{"p1", "p2", "r"}, Keys: []string{"", "k1", "k2", "<empty>", "K1"}, Subs: []string{"s1", "s2"}, Workers: []string{"w1", "w2"},
		Res: []string{"res1", "res2"}, Execs: []string{"e1", "e2", "e3"}, Scheds: []string{"sch1", "sch2"},
		Crons:         []string{"* * * * * *", "*/2 * * * * *", "*/5 * * * * *", "@every 1s", "@every 3s", "* * * * *"},
		TimeoutDeltas: []int64{1, 500, 1000, 2000, 3000, 5000, 60000},
		RouteOneIn:    3, RouteTags: []string{"poll://g/w", "poll://g", "http://x.test/h", `{"type":"poll","data":{"group":"g","id":"w"}}`, "default"},
		W:        map[string]int{},
		Excluded: map[string]int{},
	}
}

// hugeTtl: the largest int64 (clock + ttl never fits) or a ttl that fits at the start of the timeline and no longer a
// few steps later (the renewal computed by a heartbeat, or a re-acquire, does not fit)
func (g *Gen) hugeTtl() (int64, bool) {
	if g.HugeTtlOneIn == 0 || !g.D.OneIn(g.HugeTtlOneIn, "hugettl") {
		return 0, false
	}
	return []int64{math.MaxInt64, math.MaxInt64 - Base - 1500, math.MaxInt64 - Base - 2500}[g.D.Uni(3, "hugettlv")], true
}

// promiseTimeout: the configured timeout of a schedule's promises, relative to the occurrence: seconds, or (with
// HugeTtlOneIn set) "never": a value whose sum with the occurrence time does not fit into 64 bits
func (g *Gen) promiseTimeout() int64 {
	if h, ok := g.hugeTtl(); ok {
		return h
	}
	return int64(g.D.Int(1, 5, "ptimeout")) * 1000
}

func (g *Gen) taskTtl() int {
	if h, ok := g.hugeTtl(); ok {
		return int(h)
	}
	return g.D.Int(0, 3, "ttl") * 1000
}

func (g *Gen) claimTtl() int {
	if h, ok := g.hugeTtl(); ok {
		return int(h)
	}
	ttls := g.ClaimTtls
	if len(ttls) == 0 {
		ttls = []int{0, 1000, 2000, 3000, 3000, 3600_000}
	}
	return ttls[g.D.Uni(len(ttls), "ttl")]
}

func (g *Gen) pick(xs []string, label string) string {
	return xs[g.D.Uni(len(xs), label)]
}

func (g *Gen) key(label string) *idempotency.Key {
	k := g.pick(g.Keys, label)
	if k == "" {
		return nil
	}
	if k == "<empty>" {
		// a key that is present but empty (the HTTP header `Idempotency-Key:` with nothing after the colon): a key like any other
		k = ""
	}
	kk := idempotency.Key(k)
	return &kk
}

// regTimeout: the timeout of a registration (it becomes the timeout of the task it is converted into): mostly far
// away, sometimes so short that the task is already overdue when a dispatch cycle finds it
func (g *Gen) regTimeout() int64 {
	return []int64{100000, 100000, 100000, 500, 1500, 3000}[g.D.Uni(6, "regtimeout")]
}

func (g *Gen) kind() string {
	names := make([]string, 0, len(g.W))
	total := 0
	for n, w := range g.W {
		if w > 0 {
			names = append(names, n)
			total += w
		}
	}
	sort.Strings(names)
	v := g.D.Uni(total, "kind")
	for _, n := range names {
		if v < g.W[n] {
			return n
		}
		v -= g.W[n]
	}
	return names[0]
}

var dataPool = []string{"", "x", "y"}

func (g *Gen) value(label string) promise.Value {
	v := promise.Value{}
	if s := g.pick(dataPool, label+".data"); s != "" {
		v.Data = []byte(s)
	}
	if g.D.OneIn(4, label+".hdr") {
		v.Headers = map[string]string{"h": g.pick(dataPool, label+".hv")}
	}
	return v
}

func (g *Gen) CreateReq(now int64, id string) *t_api.CreatePromiseRequest {
	tags := map[string]string{}
	if g.D.OneIn(3, "tmo") {
		tags["resonate:timeout"] = g.pick([]string{"true", "true", "false"}, "tmoval")
	}
	if g.D.OneIn(g.RouteOneIn, "route") {
		tags["resonate:invoke"] = g.pick(g.RouteTags, "routetag")
	}
	if g.D.OneIn(4, "xtag") {
		tags["a"] = g.pick([]string{"1", "2"}, "xtagv")
	}
	dt := g.TimeoutDeltas[g.D.Int(0, len(g.TimeoutDeltas)-1, "timeout")]
	if dt <= 0 && !g.PastTimeouts {
		g.Excluded["create-with-past-timeout(F13)"]++
		dt = 1000
	}
	return &t_api.CreatePromiseRequest{Id: id, IdempotencyKey: g.key("ikey"), Strict: g.D.Bool("strict"), Timeout: now + dt, Tags: tags, Param: g.value("param")}
}

// Req draws one request.
func (g *Gen) Req(now int64) *t_api.Request {
	switch k := g.kind(); k {
	case "CreatePromise":
		return &t_api.Request{Kind: t_api.CreatePromise, CreatePromise: g.CreateReq(now, g.pick(g.Pids, "pid"))}
	case "CreatePromiseAndTask":
		cp := g.CreateReq(now, g.pick(g.Pids, "pid"))
		if _, ok := cp.Tags["resonate:invoke"]; !ok && !g.D.OneIn(4, "unrouted") {
			cp.Tags["resonate:invoke"] = g.pick(g.RouteTags, "routetag")
		}
		return &t_api.Request{Kind: t_api.CreatePromiseAndTask, CreatePromiseAndTask: &t_api.CreatePromiseAndTaskRequest{Promise: cp,
			Task: &t_api.CreateTaskRequest{PromiseId: cp.Id, ProcessId: g.pick(g.Workers, "w"), Ttl: g.taskTtl(), Timeout: cp.Timeout}}}
	case "CompletePromise":
		st := []promise.State{promise.Resolved, promise.Rejected, promise.Canceled}[g.D.Int(0, 2, "state")]
		return &t_api.Request{Kind: t_api.CompletePromise, CompletePromise: &t_api.CompletePromiseRequest{Id: g.pick(g.Pids, "pid"), IdempotencyKey: g.key("ikey"), Strict: g.D.Bool("strict"), State: st, Value: g.value("value")}}
	case "ReadPromise":
		return &t_api.Request{Kind: t_api.ReadPromise, ReadPromise: &t_api.ReadPromiseRequest{Id: g.pick(g.Pids, "pid")}}
	case "SearchPromises":
		states := [][]promise.State{
			{promise.Pending, promise.Resolved, promise.Rejected, promise.Canceled, promise.Timedout},
			{promise.Pending}, {promise.Resolved}, {promise.Rejected, promise.Canceled, promise.Timedout},
		}[g.D.Int(0, 3, "states")]
		return &t_api.Request{Kind: t_api.SearchPromises, SearchPromises: &t_api.SearchPromisesRequest{Id: g.pick([]string{"*", "p*", "*1", "r"}, "q"), States: states, Tags: map[string]string{}, Limit: g.D.Int(1, 4, "limit")}}
	case "CreateCallback":
		id, root := g.pick(g.Pids, "pid"), g.pick(g.Pids, "root")
		if root == id {
			// promiseId == rootPromiseId is rejected by the coroutine with a status the front ends cannot render (F5);
			// it is generated rarely and only when that finding is not excluded
			g.Excluded["callback-on-own-root(F5)"]++
			for _, p := range g.Pids {
				if p != id {
					root = p
					break
				}
			}
		}
		return &t_api.Request{Kind: t_api.CreateCallback, CreateCallback: &t_api.CreateCallbackRequest{Id: fmt.Sprintf("cb.%s.%s", root, id), PromiseId: id, RootPromiseId: root, Timeout: now + g.regTimeout(), Recv: []byte(`"` + g.pick([]string{"poll://g/w", "default"}, "recv") + `"`)}}
	case "CreateSubscription":
		return &t_api.Request{Kind: t_api.CreateSubscription, CreateSubscription: &t_api.CreateSubscriptionRequest{Id: g.pick(g.Subs, "sub"), PromiseId: g.pick(g.Pids, "pid"), Timeout: now + g.regTimeout(), Recv: []byte(`"poll://g/w"`)}}
	case "AcquireLock":
		ex := g.pick(g.Execs, "ex")
		return &t_api.Request{Kind: t_api.AcquireLock, AcquireLock: &t_api.AcquireLockRequest{ResourceId: g.pick(g.Res, "res"), ExecutionId: ex, ProcessId: g.pick(g.Workers, "proc"), Ttl: int64(g.taskTtl())}}
	case "ReleaseLock":
		return &t_api.Request{Kind: t_api.ReleaseLock, ReleaseLock: &t_api.ReleaseLockRequest{ResourceId: g.pick(g.Res, "res"), ExecutionId: g.pick(g.Execs, "ex")}}
	case "HeartbeatLocks":
		return &t_api.Request{Kind: t_api.HeartbeatLocks, HeartbeatLocks: &t_api.HeartbeatLocksRequest{ProcessId: g.pick(g.Workers, "proc")}}
	case "ClaimTask", "CompleteTask":
		tid, ctr := g.taskRef()
		if k == "ClaimTask" {
			return &t_api.Request{Kind: t_api.ClaimTask, ClaimTask: &t_api.ClaimTaskRequest{Id: tid, Counter: ctr, ProcessId: g.pick(g.Workers, "w"), Ttl: g.claimTtl()}}
		}
		return &t_api.Request{Kind: t_api.CompleteTask, CompleteTask: &t_api.CompleteTaskRequest{Id: tid, Counter: ctr}}
	case "HeartbeatTasks":
		return &t_api.Request{Kind: t_api.HeartbeatTasks, HeartbeatTasks: &t_api.HeartbeatTasksRequest{ProcessId: g.pick(g.Workers, "w")}}
	case "CreateSchedule":
		id := g.pick(g.Scheds, "sched")
		ptags := map[string]string{}
		if g.D.OneIn(3, "ptag") {
			ptags["a"] = "1"
		}
		if g.SchedRouteOneIn > 0 && g.D.OneIn(g.SchedRouteOneIn, "proute") {
			// the promises of this schedule route: each firing creates promise + task through the create-with-task path
			ptags["resonate:invoke"] = g.pick(g.RouteTags, "proutetag")
		}
		return &t_api.Request{Kind: t_api.CreateSchedule, CreateSchedule: &t_api.CreateScheduleRequest{Id: id, Description: "d", Cron: g.pick(g.Crons, "cron"),
			Tags: map[string]string{}, PromiseId: g.pick([]string{"{{.id}}.{{.timestamp}}", id + ".{{.timestamp}}", "x.{{.timestamp}}"}, "tmpl"), PromiseTimeout: g.promiseTimeout(),
			PromiseParam: g.value("pparam"), PromiseTags: ptags, IdempotencyKey: g.key("ikey")}}
	case "ReadSchedule":
		return &t_api.Request{Kind: t_api.ReadSchedule, ReadSchedule: &t_api.ReadScheduleRequest{Id: g.pick(g.Scheds, "sched")}}
	case "DeleteSchedule":
		return &t_api.Request{Kind: t_api.DeleteSchedule, DeleteSchedule: &t_api.DeleteScheduleRequest{Id: g.pick(g.Scheds, "sched")}}
	case "SearchSchedules":
		return &t_api.Request{Kind: t_api.SearchSchedules, SearchSchedules: &t_api.SearchSchedulesRequest{Id: g.pick([]string{"*", "sch*", "*1"}, "q"), Tags: map[string]string{}, Limit: g.D.Int(1, 3, "limit")}}
	default:
		panic("unknown kind " + k)
	}
}

// taskRef picks a task id and counter: mostly a dispatched pair (possibly with a stale/future counter), sometimes a derived id.
func (g *Gen) taskRef() (string, int) {
	var pairs [][2]any
	if g.Dispatched != nil {
		pairs = g.Dispatched()
	}
	if len(pairs) > 0 && !g.D.OneIn(4, "rawtask") {
		p := pairs[g.D.Int(0, len(pairs)-1, "dispatched")]
		ctr := p[1].(int) + []int{0, 0, 0, 0, -1, 1}[g.D.Int(0, 5, "ctrdelta")]
		return p[0].(string), ctr
	}
	ids := []string{}
	for _, p := range g.Pids {
		ids = append(ids, "__invoke:"+p)
	}
	for _, a := range g.Pids {
		for _, b := range g.Pids {
			if a != b {
				ids = append(ids, "__resume:"+a+":"+b)
			}
		}
	}
	return g.pick(ids, "tid"), g.D.Int(0, 3, "ctr")
}

// Config draws a kernel configuration in the documented (dst:) ranges, biased to the edges.
func GenConfig(d D, minCoroutines int) *system.Config {
	edge := func(lo, hi int, label string) int {
		switch d.Int(0, 5, label+".shape") {
		case 0:
			return lo
		case 1:
			return min(lo+1, hi)
		case 2:
			return hi
		default:
			return d.Int(lo, hi, label)
		}
	}
	return &system.Config{
		Url:                 "http://verif",
		CoroutineMaxSize:    max(minCoroutines, edge(1, 1000, "cms")),
		SubmissionBatchSize: edge(1, 1000, "sbs"),
		CompletionBatchSize: edge(1, 1000, "cbs"),
		PromiseBatchSize:    edge(1, 100, "pbs"),
		ScheduleBatchSize:   edge(1, 100, "schbs"),
		TaskBatchSize:       edge(1, 100, "tbs"),
		TaskEnqueueDelay:    time.Duration(edge(1, 10, "ted")) * time.Second,
		SignalTimeout:       time.Duration(edge(1, 10, "sigt")) * time.Second,
	}
}

func BigConfig() *system.Config {
	return &system.Config{Url: "http://verif", CoroutineMaxSize: 1000, SubmissionBatchSize: 1000, CompletionBatchSize: 1000, PromiseBatchSize: 100, ScheduleBatchSize: 100, TaskBatchSize: 100,
		TaskEnqueueDelay: time.Second, SignalTimeout: time.Second}
}
