package sim

import (
	"os"
	"testing"

	"github.com/resonatehq/resonate/internal/kernel/t_api"
	"github.com/resonatehq/resonate/internal/verif/core"
	"github.com/resonatehq/resonate/pkg/idempotency"
	"github.com/resonatehq/resonate/pkg/promise"
)

// Scripted scenarios: the shrunk counterexamples of every finding, replayed without the
// property-testing library (deterministic FIFO schedule, explicit ticks). They are the
// regression tier that every quick run executes first.

type scenario struct {
	name string
	prof Profile
	run  func(s *Sim)
	// props whose violations matter for this scenario
	props []string
}

func key(k string) *idempotency.Key { kk := idempotency.Key(k); return &kk }

func createP(id string, timeout int64, tags map[string]string) *t_api.Request {
	return &t_api.Request{Kind: t_api.CreatePromise, CreatePromise: &t_api.CreatePromiseRequest{Id: id, Timeout: timeout, Tags: tags}}
}
func completeP(id string, st promise.State) *t_api.Request {
	return &t_api.Request{Kind: t_api.CompletePromise, CompletePromise: &t_api.CompletePromiseRequest{Id: id, State: st}}
}
func readP(id string) *t_api.Request {
	return &t_api.Request{Kind: t_api.ReadPromise, ReadPromise: &t_api.ReadPromiseRequest{Id: id}}
}
func callbackR(root, leaf string) *t_api.Request {
	return &t_api.Request{Kind: t_api.CreateCallback, CreateCallback: &t_api.CreateCallbackRequest{Id: "cb", PromiseId: leaf, RootPromiseId: root, Timeout: Base + 100000, Recv: []byte(`"poll://g/w"`)}}
}
func subscribeR(id, pid string) *t_api.Request {
	return &t_api.Request{Kind: t_api.CreateSubscription, CreateSubscription: &t_api.CreateSubscriptionRequest{Id: id, PromiseId: pid, Timeout: Base + 100000, Recv: []byte(`"poll://g/w"`)}}
}

func (s *Sim) ticks(n int) {
	for i := 0; i < n; i++ {
		s.Tick()
	}
}

func runScenarios(t *testing.T, prop string, scs []scenario) {
	dir := core.Scratch("verif-regress-")
	defer os.RemoveAll(dir)
	known := core.KnownKeys()
	for _, sc := range scs {
		s := New(D{}, BigConfig(), sc.prof, dir)
		sc.run(s)
		s.Drain(40)
		vs := Judge(s)
		want := map[string]bool{}
		for _, p := range sc.props {
			want[p] = true
		}
		for _, v := range vs {
			if !want[v.Prop] {
				continue
			}
			if v.Key != "" && known[v.Key] {
				PrintKnown(v.Prop, v.Key, v.Msg)
				continue
			}
			dump := s.TraceDump()
			dump["scenario"] = sc.name
			dump["violation"] = v.String()
			core.SaveFailure("regress-"+sc.name, dump)
			t.Errorf("scenario %s: VIOLATION %s", sc.name, v)
		}
		s.Close()
	}
}

// F1: a registration whose promise completes between its read and its guarded insert.
func scenF1(sub bool) func(s *Sim) {
	return func(s *Sim) {
		s.Submit(createP("p", Base+50000, nil))
		s.Submit(createP("r", Base+50000, nil))
		s.ticks(4)
		s.Advance(1)
		// the registration starts one tick after the completion: it reads "pending" in the flush in which
		// the completion's update commits, and its guarded insert then affects no row
		s.Submit(completeP("p", promise.Resolved))
		s.Tick()
		if sub {
			s.Submit(subscribeR("s1", "p"))
		} else {
			s.Submit(callbackR("r", "p"))
		}
		s.ticks(6)
	}
}

// F19: two completions race; the loser's transaction still completes the tasks of the root.
func scenF19(s *Sim) {
	s.Submit(createP("p", Base+50000, nil))
	s.ticks(4)
	s.Advance(1)
	s.Submit(subscribeR("s1", "p"))
	s.ticks(4)
	s.Advance(1)
	s.Submit(completeP("p", promise.Resolved))
	s.Submit(completeP("p", promise.Rejected))
	s.ticks(6)
}

// F17: the derived ids of two different subscriptions coincide ("a" + "b:s" and "a:b" + "s").
func scenF17(s *Sim) {
	s.Submit(createP("a", Base+50000, nil))
	s.Submit(createP("a:b", Base+50000, nil))
	s.ticks(4)
	s.Submit(subscribeR("b:s", "a"))
	s.ticks(4)
	s.Submit(subscribeR("s", "a:b"))
	s.ticks(4)
	s.Submit(completeP("a:b", promise.Resolved))
	s.ticks(6)
}

func TestRegressC05(t *testing.T) {
	runScenarios(t, "C05", []scenario{
		{name: "F17-derived-id-collision", run: scenF17, props: []string{"C05"}},
		{name: "F1-callback-lost-to-completion", run: scenF1(false), props: []string{"C05"}},
		{name: "F1-subscription-lost-to-completion", run: scenF1(true), props: []string{"C05"}},
		{name: "F19-loser-completes-winners-notify-task", run: scenF19, props: []string{"C05", "C08"}},
	})
}

// F20: the lease sweep reads an expired claimed task; the holder's heartbeat is committed between the sweep's read
// and its (state, counter)-guarded write; the write resets the task although the stored lease has been renewed.
func scenF20(s *Sim) {
	// a task claimed at creation, lease 1000 ms
	s.Submit(&t_api.Request{Kind: t_api.CreatePromiseAndTask, CreatePromiseAndTask: &t_api.CreatePromiseAndTaskRequest{
		Promise: &t_api.CreatePromiseRequest{Id: "p", Timeout: Base + 60000, Tags: map[string]string{"resonate:invoke": "poll://g/w"}},
		Task:    &t_api.CreateTaskRequest{PromiseId: "p", ProcessId: "w", Ttl: 1000, Timeout: Base + 60000}}})
	s.ticks(4)
	// the lease has just run out; sweep and heartbeat start in the same tick: the flush executes the sweep's read,
	// then the heartbeat; the sweep's write follows one tick later
	s.Advance(1000)
	s.Submit(&t_api.Request{Kind: t_api.HeartbeatTasks, HeartbeatTasks: &t_api.HeartbeatTasksRequest{ProcessId: "w"}})
	s.ticks(6)
}

// TestRegressC02 replays the listed finding of C02's background-step part on a deterministic schedule.
func TestRegressC02(t *testing.T) {
	dir := core.Scratch("verif-regress-")
	defer os.RemoveAll(dir)
	known := core.KnownKeys()
	s := New(D{}, BigConfig(), Profile{Bg: []string{"TimeoutTasks"}}, dir)
	defer s.Close()
	scenF20(s)
	s.Drain(40)
	runners := map[string]*BgRunner{}
	defer func() {
		for _, q := range runners {
			q.Close()
		}
	}()
	vs, _, _ := explainBg(s, func(name string) *BgRunner {
		if runners[name] == nil {
			runners[name] = NewBgRunner(s.Cfg, name, dir)
		}
		return runners[name]
	})
	seen := false
	for _, v := range vs {
		if v.Key != "" && known[v.Key] {
			PrintKnown(v.Prop, v.Key, v.Msg)
			seen = true
			continue
		}
		dump := s.TraceDump()
		dump["violation"] = v.String()
		core.SaveFailure("regress-F20", dump)
		t.Errorf("scenario F20: VIOLATION %s", v)
	}
	if !seen {
		// the scenario no longer produces the listed finding: either it was repaired (fine) or the schedule no longer
		// reaches the window; not an alarm
		t.Logf("scenario F20: the listed finding was not observed")
	}
}
