package sim

import (
	"os"
	"testing"

	"github.com/resonatehq/resonate/internal/kernel/t_api"
	"github.com/resonatehq/resonate/internal/verif/core"
	"github.com/resonatehq/resonate/pkg/idempotency"
	"github.com/resonatehq/resonate/pkg/promise"
)

// Scripted scenarios: the shrunk counterexamples of every finding, replayed without the
// property-testing library (deterministic FIFO schedule, explicit ticks). They are the
// regression tier that every quick run executes first.

type scenario struct {
	name string
	prof Profile
	run  func(s *Sim)
	// props whose violations matter for this scenario
	props []string
}

func key(k string) *idempotency.Key { kk := idempotency.Key(k); return &kk }

func createP(id string, timeout int64, tags map[string]string) *t_api.Request {
	return &t_api.Request{Kind: t_api.CreatePromise, CreatePromise: &t_api.CreatePromiseRequest{Id: id, Timeout: timeout, Tags: tags}}
}
func completeP(id string, st promise.State) *t_api.Request {
	return &t_api.Request{Kind: t_api.CompletePromise, CompletePromise: &t_api.CompletePromiseRequest{Id: id, State: st}}
}
func readP(id string) *t_api.Request {
	return &t_api.Request{Kind: t_api.ReadPromise, ReadPromise: &t_api.ReadPromiseRequest{Id: id}}
}
func callbackR(root, leaf string) *t_api.Request {
	return &t_api.Request{Kind: t_api.CreateCallback, CreateCallback: &t_api.CreateCallbackRequest{Id: "cb", PromiseId: leaf, RootPromiseId: root, Timeout: Base + 100000, Recv: []byte(`"poll://g/w"`)}}
}
func subscribeR(id, pid string) *t_api.Request {
	return &t_api.Request{Kind: t_api.CreateSubscription, CreateSubscription: &t_api.CreateSubscriptionRequest{Id: id, PromiseId: pid, Timeout: Base + 100000, Recv: []byte(`"poll://g/w"`)}}
}

func (s *Sim) ticks(n int) {
	for i := 0; i < n; i++ {
		s.Tick()
	}
}

func runScenarios(t *testing.T, prop string, scs []scenario) {
	dir := core.Scratch("verif-regress-")
	defer os.RemoveAll(dir)
	known := core.KnownKeys()
	for _, sc := range scs {
		s := New(D{}, BigConfig(), sc.prof, dir)
		sc.run(s)
		s.Drain(40)
		vs := Judge(s)
		want := map[string]bool{}
		for _, p := range sc.props {
			want[p] = true
		}
		for _, v := range vs {
			if !want[v.Prop] {
				continue
			}
			if v.Key != "" && known[v.Key] {
				PrintKnown(v.Prop, v.Key, v.Msg)
				continue
			}
			dump := s.TraceDump()
			dump["scenario"] = sc.name
			dump["violation"] = v.String()
			core.SaveFailure("regress-"+sc.name, dump)
			t.Errorf("scenario %s: VIOLATION %s", sc.name, v)
		}
		s.Close()
	}
}

// F1: a registration whose promise completes between its read and its guarded insert.
func scenF1(sub bool) func(s *Sim) {
	return func(s *Sim) {
		s.Submit(createP("p", Base+50000, nil))
		s.Submit(createP("r", Base+50000, nil))
		s.ticks(4)
		s.Advance(1)
		// the registration starts one tick after the completion: it reads "pending" in the flush in which
		// the completion's update commits, and its guarded insert then affects no row
		s.Submit(completeP("p", promise.Resolved))
		s.Tick()
		if sub {
			s.Submit(subscribeR("s1", "p"))
		} else {
			s.Submit(callbackR("r", "p"))
		}
		s.ticks(6)
	}
}

// F19: two completions race; the loser's transaction still completes the tasks of the root.
func scenF19(s *Sim) {
	s.Submit(createP("p", Base+50000, nil))
	s.ticks(4)
	s.Advance(1)
	s.Submit(subscribeR("s1", "p"))
	s.ticks(4)
	s.Advance(1)
	s.Submit(completeP("p", promise.Resolved))
	s.Submit(completeP("p", promise.Rejected))
	s.ticks(6)
}

// F17: the derived ids of two different subscriptions coincide ("a" + "b:s" and "a:b" + "s").
func scenF17(s *Sim) {
	s.Submit(createP("a", Base+50000, nil))
	s.Submit(createP("a:b", Base+50000, nil))
	s.ticks(4)
	s.Submit(subscribeR("b:s", "a"))
	s.ticks(4)
	s.Submit(subscribeR("s", "a:b"))
	s.ticks(4)
	s.Submit(completeP("a:b", promise.Resolved))
	s.ticks(6)
}

func TestRegressC05(t *testing.T) {
	runScenarios(t, "C05", []scenario{
		{name: "F17-derived-id-collision", run: scenF17, props: []string{"C05"}},
		{name: "F1-callback-lost-to-completion", run: scenF1(false), props: []string{"C05"}},
		{name: "F1-subscription-lost-to-completion", run: scenF1(true), props: []string{"C05"}},
		{name: "F19-loser-completes-winners-notify-task", run: scenF19, props: []string{"C05", "C08"}},
	})
}
