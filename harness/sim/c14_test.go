package sim

import (
	"fmt"
	"github.com/resonatehq/resonate/internal/app/subsystems/api"
	"regexp"
	"sort"
	"strings"
	"testing"

	"github.com/resonatehq/resonate/internal/kernel/t_aio"
	"github.com/resonatehq/resonate/internal/kernel/t_api"
	"github.com/resonatehq/resonate/internal/verif/core"
	"github.com/resonatehq/resonate/pkg/promise"
)

func globMatch(pattern, id string) bool {
	parts := strings.Split(pattern, "*")
	for i := range parts {
		parts[i] = regexp.QuoteMeta(parts[i])
	}
	return regexp.MustCompile("^" + strings.Join(parts, ".*") + "$").MatchString(id)
}

var searchIds = []string{"a", "ab", "abc", "a/b", "b.a", "b", "ba", "c", "x/a", "foo", "foo.1", "foo.2", "bar", "b/a/r", "z", "u_v", "u_v", "u_w"} // (no other id starts with u: "_" may be a literal or a one-character wildcard, the matches are the same)
var searchPatterns = []string{"*", "*", "*", "a*", "*a", "*b*", "foo*", "*.1", "a", "b*a", "*/a*", "nomatch*", "u_*", "u_v*", "u_*"}

type page struct {
	req    *ReqRec
	ids    []string
	cursor bool
	snap   core.Snapshot // database state the page was computed from
	tick   int64
}

// apiLayer is the request construction / cursor validation shared by the HTTP and gRPC front ends.
var apiLayer = api.New(nil, "verif")

// TestC14 — search with cursors returns exactly the matching set, once each, newest first.
func TestC14(t *testing.T) {
	tampered, tamperedRejected := 0, 0
	c := Campaign{
		Prop:  "C14",
		Rule:  "rapid draws a population of 0..40 promises (ids from a wildcard-friendly pool, tags, states incl. overdue pending) or 0..12 schedules, a query (prefix/suffix/infix wildcard, any non-empty subset of the 5 states, tag subset, limit 1..100 biased small) and follows the cursors through encode->token->decode to the end, while creations, completions, deletions and clock advances over time-outs are interleaved between and during pages. Oracle R1-R6. Non-trivial: the traversal has >=2 pages and >=1 mutation committed between the first and last page. Distinct = (query, page sizes, mutation count) signature.",
		Fatal: []string{"C14"},
	}
	var npages, nmut int
	var sig string
	c.Custom = func(d D, dir string) (*Sim, []Violation) {
		var vs []Violation
		add := func(code, f string, a ...any) { vs = append(vs, Violation{"C14", code, "", fmt.Sprintf(f, a...)}) }
		cfg := GenConfig(d, 16)
		prof := Profile{Permute: true, Hold: 8, Cut: 2}
		if d.Bool("sweep") {
			prof.Bg = []string{"TimeoutPromises"}
		}
		s := New(d, cfg, prof, dir)
		schedules := d.OneIn(4, "schedules")
		// ---- population (deterministic schedule) ----
		saved := s.D
		s.D = D{}
		n := []int{0, 2, 6, 10, 16, 25, 32, 40}[d.Uni(8, "population")]
		if schedules {
			n = []int{0, 1, 3, 6, 12}[d.Uni(5, "population")]
		}
		// now and then a population larger than the largest page (100, also the default), so that a full-size page
		// hands out a cursor that has to be accepted again
		big := d.OneIn(12, "bigpopulation")
		if big {
			n = 101 + d.Uni(40, "bign")
		}
		mkPromise := func(i int) *t_api.Request {
			id := searchIds[d.Uni(len(searchIds), "id")]
			if big || !d.OneIn(4, "nosuffix") {
				id = fmt.Sprintf("%s.%d", id, i)
			}
			tags := map[string]string{}
			if d.Bool("tagk") {
				tags["k"] = []string{"v1", "v2"}[d.Uni(2, "tagv")]
			}
			if d.OneIn(3, "tagj") {
				tags["j"] = "w"
			}
			return &t_api.Request{Kind: t_api.CreatePromise, CreatePromise: &t_api.CreatePromiseRequest{Id: id, Timeout: s.Now + []int64{500, 1500, 3000, 100000, 100000}[d.Uni(5, "timeout")], Tags: tags}}
		}
		mkSchedule := func(i int) *t_api.Request {
			id := searchIds[d.Uni(len(searchIds), "id")]
			if big || d.Bool("suffix") {
				id = fmt.Sprintf("%s.%d", id, i)
			}
			tags := map[string]string{}
			if d.Bool("tagk") {
				tags["k"] = []string{"v1", "v2"}[d.Uni(2, "tagv")]
			}
			return &t_api.Request{Kind: t_api.CreateSchedule, CreateSchedule: &t_api.CreateScheduleRequest{Id: id, Cron: "0 0 1 1 *", Tags: tags, PromiseId: id + ".{{.timestamp}}", PromiseTimeout: 1000}}
		}
		for i := 0; i < n; i++ {
			if schedules {
				s.Submit(mkSchedule(i))
			} else {
				s.Submit(mkPromise(i))
			}
		}
		s.Drain(30)
		if !schedules {
			ids := s.Snaps[s.CurSnap()].Keys("promises")
			for _, id := range ids {
				if d.OneIn(3, "complete") {
					st := []promise.State{promise.Resolved, promise.Rejected, promise.Canceled}[d.Uni(3, "cstate")]
					s.Submit(&t_api.Request{Kind: t_api.CompletePromise, CompletePromise: &t_api.CompletePromiseRequest{Id: id, State: st}})
				}
			}
			s.Drain(30)
		}
		s.D = saved
		// ---- query ----
		pattern := "*"
		if d.Bool("selective") {
			pattern = searchPatterns[d.Uni(len(searchPatterns), "pattern")]
		}
		qtags := map[string]string{}
		if d.OneIn(3, "qtag") || (schedules && d.Bool("qtagsched")) {
			qtags["k"] = []string{"v1", "v2"}[d.Uni(2, "qtagv")]
		}
		var states []promise.State
		mask := d.Uni(31, "statemask") + 1
		if d.Bool("allstates") {
			mask = 31
		}
		for _, st := range []promise.State{promise.Pending, promise.Resolved, promise.Rejected, promise.Canceled, promise.Timedout} {
			if mask&int(st) != 0 {
				states = append(states, st)
			}
		}
		// page size relative to the number of matches m, so that multi-page traversals are the rule
		m := 0
		{
			tbl := "promises"
			if schedules {
				tbl = "schedules"
			}
			for _, row := range s.Snaps[s.CurSnap()][tbl] {
				tags := row.JSONMap("tags")
				ok := globMatch(pattern, row.S("id")) && (schedules || row.I("state")&int64(mask) != 0)
				for k, v := range qtags {
					if tags[k] != v {
						ok = false
					}
				}
				if ok {
					m++
				}
			}
		}
		limit := []int{1, 2, 3, m / 3, m / 2, m - 1, m, m + 1, 100}[d.Uni(9, "limitshape")]
		if d.OneIn(6, "limitany") {
			limit = d.Int(1, 100, "limit")
		}
		if big && !d.OneIn(4, "bigotherlimit") {
			limit = []int{100, 100, 99}[d.Uni(3, "biglimit")]
		}
		limit = min(100, max(1, limit))
		if big {
			limit = max(limit, 25) // the traversal is followed for at most 60 pages (a harness bound, not the server's)
		}
		mkReq := func(sortId *int64) *t_api.Request {
			if schedules {
				return &t_api.Request{Kind: t_api.SearchSchedules, SearchSchedules: &t_api.SearchSchedulesRequest{Id: pattern, Tags: qtags, Limit: limit, SortId: sortId}}
			}
			return &t_api.Request{Kind: t_api.SearchPromises, SearchPromises: &t_api.SearchPromisesRequest{Id: pattern, States: states, Tags: qtags, Limit: limit, SortId: sortId}}
		}
		table := "promises"
		if schedules {
			table = "schedules"
		}
		// ---- traversal with interleaved mutations ----
		var pages []page
		var sortId *int64
		mutations := 0
		mutate := func() {
			for k := d.Int(0, 2, "nmut"); k > 0; k-- {
				switch {
				case schedules && d.Bool("del"):
					ids := s.Snaps[s.CurSnap()].Keys("schedules")
					if len(ids) > 0 {
						s.Submit(&t_api.Request{Kind: t_api.DeleteSchedule, DeleteSchedule: &t_api.DeleteScheduleRequest{Id: ids[d.Uni(len(ids), "delid")]}})
						mutations++
					}
				case schedules:
					s.Submit(mkSchedule(1000 + mutations))
					mutations++
				case d.Bool("mcomplete"):
					ids := s.Snaps[s.CurSnap()].Keys("promises")
					if len(ids) > 0 {
						s.Submit(&t_api.Request{Kind: t_api.CompletePromise, CompletePromise: &t_api.CompletePromiseRequest{Id: ids[d.Uni(len(ids), "cid")], State: promise.Resolved}})
						mutations++
					}
				default:
					s.Submit(mkPromise(1000 + mutations))
					mutations++
				}
			}
			if d.OneIn(3, "advance") {
				s.Advance([]int64{1, 500, 1000, 2000}[d.Uni(4, "dt")])
			}
		}
		for pg := 0; pg < 60; pg++ {
			rr := s.Submit(mkReq(sortId))
			if d.Bool("mutateDuring") {
				mutate()
			}
			for i := 0; i < 400 && !rr.Done; i++ {
				s.Tick()
			}
			if !rr.Done || rr.Err != nil {
				add("R0", "page request %s not answered: %v", rr, rr.Err)
				break
			}
			// the state the page was computed from: pre-state of the request's last search transaction
			var last *TxRec
			for _, tx := range s.Txs {
				if tx.ReqId == rr.Id && len(tx.Cmds) == 1 && (tx.Cmds[0].Kind == t_aio.SearchPromises || tx.Cmds[0].Kind == t_aio.SearchSchedules) {
					last = tx
				}
			}
			if last == nil {
				add("R0", "page request %s executed no search", rr)
				break
			}
			p := page{req: rr, snap: last.Pre, tick: rr.ResTick}
			var next *int64
			if schedules {
				for _, sc := range rr.Res.SearchSchedules.Schedules {
					p.ids = append(p.ids, sc.Id)
				}
				if cur := rr.Res.SearchSchedules.Cursor; cur != nil {
					p.cursor = true
					tok, err := cur.Encode()
					if err != nil {
						add("R6", "cursor does not encode: %v", err)
						break
					}
					if next, aerr := apiLayer.SearchSchedules("", nil, 0, tok); aerr != nil {
						add("R6", "own cursor token (page of %d, limit %d) is refused by the API layer both front ends go through: %v", len(p.ids), limit, aerr)
					} else if next.Id != pattern || next.Limit != limit {
						add("R6", "the API layer turns the cursor into another query: %v", next)
					}
					dec, err := t_api.NewCursor[t_api.SearchSchedulesRequest](tok)
					if err != nil || dec.Next == nil {
						add("R6", "own cursor token rejected: %v", err)
						break
					}
					if dec.Next.Id != pattern || dec.Next.Limit != limit || !sameMap(dec.Next.Tags, qtags) {
						add("R6", "cursor does not carry the query (pattern %q tags %v limit %d): %v", pattern, qtags, limit, dec.Next)
					}
					next = dec.Next.SortId
					vs = append(vs, tamper(tok, &tampered, &tamperedRejected, func(x string) error {
						_, err := t_api.NewCursor[t_api.SearchSchedulesRequest](x)
						return err
					})...)
				}
			} else {
				for _, pr := range rr.Res.SearchPromises.Promises {
					p.ids = append(p.ids, pr.Id)
					if int(pr.State)&mask == 0 {
						add("R1", "page %d returned %s in state %s, which the state filter %v excludes", pg, pr.Id, pr.State, states)
					}
					if pr.State == promise.Pending && pr.Timeout <= rr.ResTick {
						add("R5", "page %d reports overdue promise %s as pending (timeout %d, tick %d)", pg, pr.Id, pr.Timeout-Base, rr.ResTick-Base)
					}
				}
				if cur := rr.Res.SearchPromises.Cursor; cur != nil {
					p.cursor = true
					tok, err := cur.Encode()
					if err != nil {
						add("R6", "cursor does not encode: %v", err)
						break
					}
					if next, aerr := apiLayer.SearchPromises("", "", nil, 0, tok); aerr != nil {
						add("R6", "own cursor token (page of %d, limit %d) is refused by the API layer both front ends go through: %v", len(p.ids), limit, aerr)
					} else if next.Id != pattern || next.Limit != limit || fmt.Sprint(next.States) != fmt.Sprint(states) {
						add("R6", "the API layer turns the cursor into another query: %v", next)
					}
					dec, err := t_api.NewCursor[t_api.SearchPromisesRequest](tok)
					if err != nil || dec.Next == nil {
						add("R6", "own cursor token rejected: %v", err)
						break
					}
					if dec.Next.Id != pattern || dec.Next.Limit != limit || fmt.Sprint(dec.Next.States) != fmt.Sprint(states) || !sameMap(dec.Next.Tags, qtags) {
						add("R6", "cursor does not carry the query (pattern %q states %v tags %v limit %d): %v", pattern, states, qtags, limit, dec.Next)
					}
					next = dec.Next.SortId
					vs = append(vs, tamper(tok, &tampered, &tamperedRejected, func(x string) error {
						_, err := t_api.NewCursor[t_api.SearchPromisesRequest](x)
						return err
					})...)
				}
			}
			pages = append(pages, p)
			if len(p.ids) > limit {
				add("R4", "page %d has %d items, limit %d", pg, len(p.ids), limit)
			}
			if p.cursor != (len(p.ids) == limit) {
				add("R4", "page %d has %d of %d items but cursor present = %v", pg, len(p.ids), limit, p.cursor)
			}
			if !p.cursor {
				break
			}
			if next == nil {
				add("R6", "cursor without position")
				break
			}
			sortId = next
			if d.Bool("mutateBetween") {
				mutate()
				for i := 0; i < d.Int(0, 3, "mticks"); i++ {
					s.Tick()
				}
			}
			if pg == 59 {
				add("R0", "traversal did not end after 60 pages")
			}
		}
		s.Drain(40)
		// ---- oracle over the traversal ----
		matches := func(row core.Row) bool {
			if !globMatch(pattern, row.S("id")) {
				return false
			}
			tags := row.JSONMap("tags")
			for k, v := range qtags {
				if tags[k] != v {
					return false
				}
			}
			if !schedules && row.I("state")&int64(mask) == 0 {
				return false
			}
			return true
		}
		seen := map[string]int{}
		lastSort := int64(1 << 62)
		maxTick := int64(0)
		for i, p := range pages {
			maxTick = max(maxTick, p.tick)
			for _, id := range p.ids {
				seen[id]++
				row, ok := p.snap[table][id]
				if !ok {
					add("R1", "page %d returned %s which did not exist when the page was computed", i, id)
					continue
				}
				if !matches(row) {
					add("R1", "page %d returned %s which does not match the query (pattern %q states %v tags %v): %s", i, id, pattern, states, qtags, core.RowString(row))
				}
				if row.I("sort_id") >= lastSort {
					add("R3", "page %d: %s (sort id %d) is not older than the previous item (%d): not newest-first", i, id, row.I("sort_id"), lastSort)
				}
				lastSort = row.I("sort_id")
			}
		}
		for id, k := range seen {
			if k > 1 {
				add("R2", "%s returned %d times", id, k)
			}
		}
		if len(pages) > 0 && len(vs) == 0 {
			first, lastp := pages[0], pages[len(pages)-1]
			// every snapshot between the first and the last page
			var between []core.Snapshot
			in := false
			for _, sn := range s.Snaps {
				if sameSnap(sn, first.snap) {
					in = true
				}
				if in {
					between = append(between, sn)
				}
				if sameSnap(sn, lastp.snap) && in {
					break
				}
			}
			if !lastp.cursor { // only a completed traversal promises completeness
				for _, id := range first.snap.Keys(table) {
					always := true
					overdue := false
					for _, sn := range between {
						row, ok := sn[table][id]
						if !ok || !matches(row) {
							always = false
							break
						}
						if !schedules && row.I("state") == pPending && row.I("timeout") <= maxTick {
							overdue = true
						}
					}
					if always && !overdue && seen[id] == 0 {
						add("R2", "%s matched the query throughout the traversal but was never returned (pages %v)", id, pageSizes(pages))
					}
				}
			}
		}
		npages, nmut = len(pages), mutations
		sig = fmt.Sprintf("%v|%s|%v|%v|%d|%v|%d", schedules, pattern, states, qtags, limit, pageSizes(pages), mutations)
		return s, vs
	}
	c.Classify = func(s *Sim) ([]string, bool, string) {
		labels := []string{fmt.Sprintf("pages=%d", min(npages, 5))}
		if nmut > 0 {
			labels = append(labels, "mutations-during-traversal")
		}
		return labels, npages >= 2 && nmut >= 1, sig
	}
	c.Finish = func(st *core.Stats) {
		st.Extra["cursor_tokens_tampered"] = tampered
		st.Extra["tampered_tokens_rejected"] = tamperedRejected
	}
	RunCampaign(t, c)
}

func pageSizes(ps []page) []int {
	out := make([]int, len(ps))
	for i, p := range ps {
		out[i] = len(p.ids)
	}
	return out
}

func sameSnap(a, b core.Snapshot) bool {
	// snapshots are shared by identity between consecutive read-only transactions
	return fmt.Sprintf("%p", a["promises"]) == fmt.Sprintf("%p", b["promises"])
}

// tamper checks R6 on a real token: flipping any single character of the signature or payload must be rejected.
func tamper(tok string, n, rejected *int, decode func(string) error) []Violation {
	var vs []Violation
	parts := strings.Split(tok, ".")
	if len(parts) != 3 {
		return []Violation{{"C14", "R6", "", "cursor token is not a signed token: " + tok}}
	}
	idxs := []int{len(parts[0]) + 1 + len(parts[1])/2, len(tok) - 2, len(parts[0]) + 2}
	sort.Ints(idxs)
	for _, i := range idxs {
		b := []byte(tok)
		if b[i] == 'A' {
			b[i] = 'B'
		} else {
			b[i] = 'A'
		}
		*n++
		if err := decode(string(b)); err != nil {
			*rejected++
		} else {
			vs = append(vs, Violation{"C14", "R6", "", fmt.Sprintf("cursor token with character %d changed was accepted", i)})
		}
	}
	return vs
}
