package sim

import (
	"fmt"
	"os"
	"sort"
	"strings"
	"sync"
	"testing"

	"github.com/resonatehq/resonate/internal/kernel/system"
	"github.com/resonatehq/resonate/internal/kernel/t_api"
	"github.com/resonatehq/resonate/internal/verif/core"
	"pgregory.net/rapid"
)

// Case is one generated (configuration, timeline) pair of a campaign.
type Case struct {
	Cfg   *system.Config
	Prof  Profile
	Gen   *Gen
	Steps [2]int // number of timeline steps (lo, hi)
	MaxRq int    // requests per step 0..MaxRq
	// Dts are the clock advances offered per step; -1 = jump exactly to the next stored deadline,
	// -2 = one ms before it, -3 = one ms after it.
	Dts []int64
	// QuietAdvance: advance the clock only while no request is in flight (single-clock requests)
	QuietAdvance bool
	Settle       int // extra ticks (with scheduling freedom, no new requests) before the final drain
	CrashBetween int // crash between steps with probability 1/CrashBetween
	ExtraTicks   int // after each step's tick, 0..ExtraTicks further ticks at the same clock value
	CrashAt      int // 1-based crash opportunity at which the kernel crashes (0 = none)
	scaled       bool
	StopOnCrash  bool // end the timeline as soon as the kernel has crashed (crash-point enumeration)
	Prime        int  // up to Prime promises are created (deterministically, no faults) before the timeline starts
	Setup        func(s *Sim)
	PerStep      func(s *Sim, step int)
}

// Campaign describes one property check.
type Campaign struct {
	Prop  string
	Rule  string
	Fatal []string // properties whose violations fail this check
	Build func(d D) *Case
	// Classify returns labels for the class histogram and, if the case is non-trivial, its signature.
	Classify func(s *Sim) (labels []string, nontrivial bool, signature string)
	// Extra oracles evaluated on the finished simulation
	Extra func(s *Sim) []Violation
	// Custom replaces Build+RunCase: it runs the case itself and returns the simulation and extra violations
	Custom func(d D, dir string) (*Sim, []Violation)
	// Finish may add counters to the statistics before they are written
	Finish func(st *core.Stats)
}

// DebugHook, when set by a test, is called with the simulation of a failing case (development aid).
var DebugHook func(s *Sim, dir string)

var (
	knownPrinted   = map[string]bool{}
	knownPrintedMu sync.Mutex
)

func PrintKnown(prop, key, msg string) {
	knownPrintedMu.Lock()
	defer knownPrintedMu.Unlock()
	if knownPrinted[key] {
		return
	}
	knownPrinted[key] = true
	fmt.Printf("KNOWN-FINDING: property=%s %s — e.g. %s\n", prop, key, msg)
}

// NextDeadline returns the smallest stored deadline strictly after now (promise timeouts, lease
// ends, schedule occurrences) within reach of the simulated clock, or 0.
func NextDeadline(sn core.Snapshot, now int64) int64 {
	best := int64(0)
	consider := func(v int64) {
		// a lease end beyond any timeline (a ttl close to the largest int64) is not an instant the clock can land on
		if v > now && v-now < 1<<40 && (best == 0 || v < best) {
			best = v
		}
	}
	for _, r := range sn["promises"] {
		if r.I("state") == pPending {
			consider(r.I("timeout"))
		}
	}
	for _, r := range sn["tasks"] {
		if r.I("state")&(tInit|tEnqueued|tClaimed) != 0 {
			consider(r.I("expires_at"))
			consider(r.I("timeout"))
		}
	}
	for _, r := range sn["locks"] {
		consider(r.I("expires_at"))
	}
	for _, r := range sn["schedules"] {
		consider(r.I("next_run_time"))
	}
	return best
}

// RunCase executes the timeline of c on a fresh simulator and returns it (caller closes).
func RunCase(d D, c *Case, dir string) *Sim {
	if core.Tier() == "thorough" && !c.scaled {
		// deeper exploration: longer timelines and more requests per step
		c.scaled = true
		c.Steps[1] = c.Steps[1] * 3 / 2
		c.MaxRq++
		c.Settle += 2
	}
	s := New(d, c.Cfg, c.Prof, dir)
	s.CrashAt = c.CrashAt - 1
	if c.Gen != nil && c.Gen.Dispatched == nil {
		c.Gen.Dispatched = func() [][2]any {
			var out [][2]any
			for _, sd := range s.Sends {
				out = append(out, [2]any{sd.Sub.Task.Id, sd.Sub.Task.Counter})
			}
			// tasks born claimed (create-with-task) are known to their creator
			for _, id := range s.Snaps[s.CurSnap()].Keys("tasks") {
				r := s.Snaps[s.CurSnap()]["tasks"][id]
				if r.I("state") == tClaimed {
					out = append(out, [2]any{id, int(r.I("counter"))})
				}
			}
			if len(out) > 8 {
				out = out[len(out)-8:]
			}
			return out
		}
	}
	if c.Prime > 0 && c.Gen != nil {
		n := d.Int(0, c.Prime, "prime")
		saved := s.D
		s.D = D{}
		for i := 0; i < n; i++ {
			s.Submit(&t_api.Request{Kind: t_api.CreatePromise, CreatePromise: c.Gen.CreateReq(s.Now, c.Gen.pick(c.Gen.Pids, "primepid"))})
		}
		for i := 0; i < 6 && s.InFlight() > 0; i++ {
			s.Tick()
		}
		s.D = saved
	}
	if c.Setup != nil {
		c.Setup(s)
	}
	steps := d.Int(c.Steps[0], c.Steps[1], "steps")
	for i := 0; i < steps; i++ {
		if c.PerStep != nil {
			c.PerStep(s, i)
		}
		for n := d.Int(0, c.MaxRq, "nreq"); n > 0 && c.Gen != nil; n-- {
			s.Submit(c.Gen.Req(s.Now))
		}
		if c.StopOnCrash && s.Inc > 0 {
			return s
		}
		s.step(d, c)
		if c.StopOnCrash && s.Inc > 0 {
			return s
		}
		if s.crashAllowed() && d.OneIn(c.CrashBetween, "crashbetween") {
			s.Crash()
		}
	}
	for i := 0; i < c.Settle; i++ {
		s.step(d, c)
		if c.StopOnCrash && s.Inc > 0 {
			return s
		}
	}
	if !c.StopOnCrash {
		s.Drain(60)
	}
	return s
}

func (s *Sim) step(d D, c *Case) {
	if !c.QuietAdvance || s.InFlight() == 0 {
		dt := c.Dts[d.Uni(len(c.Dts), "dt")]
		if dt < 0 {
			nd := NextDeadline(s.Snaps[s.CurSnap()], s.Now)
			switch {
			case nd == 0:
				dt = 0
			case dt == -1:
				dt = nd - s.Now
			case dt == -2:
				dt = max(0, nd-1-s.Now)
			default:
				dt = nd + 1 - s.Now
			}
		}
		s.Advance(dt)
	}
	s.Tick()
	for k := d.Int(0, c.ExtraTicks, "extraticks"); k > 0; k-- {
		s.Tick()
	}
}

// RunCampaign is the body shared by all simulator property tests.
func RunCampaign(t *testing.T, c Campaign) {
	stats := core.NewStats(c.Prop, c.Rule)
	dir := core.Scratch("verif-sim-")
	defer os.RemoveAll(dir)
	defer stats.Write()
	defer func() {
		if c.Finish != nil {
			c.Finish(stats)
		}
	}()
	fatal := map[string]bool{}
	for _, p := range c.Fatal {
		fatal[p] = true
	}
	known := core.KnownKeys()
	rapid.Check(t, func(rt *rapid.T) {
		d := D{T: rt}
		var cs *Case
		var s *Sim
		var pre []Violation
		if c.Custom != nil {
			s, pre = c.Custom(d, dir)
			cs = &Case{}
		} else {
			cs = c.Build(d)
			s = RunCase(d, cs, dir)
		}
		defer s.Close()
		stats.Eval()
		vs := append(pre, Judge(s)...)
		if c.Extra != nil {
			vs = append(vs, c.Extra(s)...)
		}
		if n := s.InFlight(); n > 0 {
			vs = append(vs, Violation{"C12", "unanswered", "", fmt.Sprintf("%d requests never answered after the final drain", n)})
		}
		if cs.Gen != nil {
			for k, n := range cs.Gen.Excluded {
				for i := 0; i < n; i++ {
					stats.Exclude(k)
				}
			}
		}
		labels, nontriv, sig := c.Classify(s)
		for _, l := range labels {
			stats.Class(l)
		}
		if nontriv {
			stats.Nontriv(sig, sampleOf(s))
		}
		for _, v := range vs {
			if !fatal[v.Prop] && os.Getenv("VERIF_FATAL_ALL") == "" {
				stats.Class("seen-violation-of-other-property:" + v.Prop + "-" + v.Code)
				continue // judged by that property's own check
			}
			if v.Key != "" && known[v.Key] {
				stats.KnownFinding(v.Key)
				PrintKnown(v.Prop, v.Key, v.Msg)
				continue
			}
			dump := s.TraceDump()
			dump["violation"] = v.String()
			dump["key"] = v.Key
			var all []string
			for _, w := range vs {
				all = append(all, w.String())
			}
			dump["all_violations"] = all
			core.SaveFailure("last", dump)
			if DebugHook != nil {
				DebugHook(s, dir)
			}
			rt.Fatalf("VIOLATION %s", v)
		}
	})
}

func sampleOf(s *Sim) any {
	var reqs []string
	for _, r := range s.Reqs {
		line := fmt.Sprintf("t=%d %s", r.SubmitTick-Base, r)
		if r.Done {
			st := "error"
			if r.Err == nil && r.Res != nil {
				st = fmt.Sprint(int(r.Res.Status()))
			}
			line += fmt.Sprintf(" -> %s @t=%d", st, r.ResTick-Base)
		} else if r.Lost {
			line += " -> lost in crash"
		}
		reqs = append(reqs, line)
		if len(reqs) >= 14 {
			reqs = append(reqs, "...")
			break
		}
	}
	faults := 0
	for _, tx := range s.Txs {
		if tx.Fault != "" {
			faults++
		}
	}
	return map[string]any{"config": s.Cfg.String(), "requests": reqs, "store_transactions": len(s.Txs), "handoffs": len(s.Sends), "crashes": len(s.Restarts), "after_commit_faults": faults, "ticks": len(s.Ticks)}
}

// ShapeSignature is a canonical signature of the operation/schedule shape of a case: request kinds
// and statuses in response order plus the commit order of transactions by coroutine name.
func ShapeSignature(s *Sim) string {
	var sb strings.Builder
	for _, r := range s.Reqs {
		st := "-"
		if r.Done && r.Err == nil && r.Res != nil {
			st = fmt.Sprint(int(r.Res.Status()))
		} else if r.Done {
			st = "E"
		}
		fmt.Fprintf(&sb, "%s:%s@%d;", r.Req.Kind, st, r.ResSeq)
	}
	for _, tx := range s.Txs {
		fmt.Fprintf(&sb, "%s/%s/%s;", tx.Name, tx.CmdString(), tx.Fault)
	}
	return sb.String()
}

// overlapping reports whether two requests were in flight at the same time.
func overlapping(a, b *ReqRec) bool {
	ae, be := a.ResSeq, b.ResSeq
	if !a.Done {
		ae = 1 << 30
	}
	if !b.Done {
		be = 1 << 30
	}
	return a.SubmitSeq < be && b.SubmitSeq < ae
}

func reqPromiseId(r *t_api.Request) string {
	switch r.Kind {
	case t_api.ReadPromise:
		return r.ReadPromise.Id
	case t_api.CreatePromise:
		return r.CreatePromise.Id
	case t_api.CreatePromiseAndTask:
		return r.CreatePromiseAndTask.Promise.Id
	case t_api.CompletePromise:
		return r.CompletePromise.Id
	case t_api.CreateCallback:
		return r.CreateCallback.PromiseId
	case t_api.CreateSubscription:
		return r.CreateSubscription.PromiseId
	}
	return ""
}

func sortedKeys(m map[string]bool) []string {
	out := make([]string, 0, len(m))
	for k := range m {
		out = append(out, k)
	}
	sort.Strings(out)
	return out
}
