package sim

import (
	"fmt"
	"sort"
	"strings"
	"testing"
	"time"

	"github.com/resonatehq/resonate/internal/kernel/t_api"
	"github.com/resonatehq/resonate/internal/verif/core"
	"github.com/resonatehq/resonate/pkg/promise"
)

// backlog counts what the background coroutines have to work off at clock value now.
type backlog struct {
	overduePromises, expiredLocks, dueSchedules, occurrences, dispatchable, expiredTasks int
}

func dispatchableTasks(sn core.Snapshot, now int64) []string {
	var out []string
	for _, id := range sn.Keys("tasks") {
		tk := sn["tasks"][id]
		if tk.I("state") != tInit {
			continue
		}
		blocked := false
		for _, oid := range sn.Keys("tasks") {
			o := sn["tasks"][oid]
			if oid != id && o.S("root_promise_id") == tk.S("root_promise_id") && o.I("state")&(tEnqueued|tClaimed) != 0 {
				blocked = true
			}
		}
		if !blocked {
			out = append(out, id)
		}
	}
	return out
}

func measure(sn core.Snapshot, now int64) backlog {
	var b backlog
	for _, r := range sn["promises"] {
		if r.I("state") == pPending && r.I("timeout") <= now {
			b.overduePromises++
		}
	}
	for _, r := range sn["locks"] {
		if r.I("expires_at") <= now {
			b.expiredLocks++
		}
	}
	for _, r := range sn["schedules"] {
		if r.I("next_run_time") <= now {
			b.dueSchedules++
			for t := r.I("next_run_time"); t <= now && b.occurrences < 10000; {
				b.occurrences++
				nx, ok := NextOccurrence(t, r.S("cron"))
				if !ok || nx <= t {
					break
				}
				t = nx
			}
		}
	}
	b.dispatchable = len(dispatchableTasks(sn, now))
	for _, r := range sn["tasks"] {
		if r.I("state")&(tEnqueued|tClaimed) != 0 && (r.I("expires_at") <= now || r.I("timeout") <= now) {
			b.expiredTasks++
		}
	}
	return b
}

// quiescent evaluates the predicates of the statement; each kind of item is compared with the clock
// value of an earlier cycle (ref.*), which allows for the cycles a full batch rotation legitimately takes.
type refTimes struct{ promises, locks, schedules, tasks int64 }

func quiescent(sn core.Snapshot, ref refTimes, tasks bool) []string {
	var bad []string
	for _, id := range sn.Keys("promises") {
		if r := sn["promises"][id]; r.I("state") == pPending && r.I("timeout") <= ref.promises {
			bad = append(bad, fmt.Sprintf("promise %s pending past its timeout %d", id, r.I("timeout")-Base))
		}
	}
	for _, id := range sn.Keys("locks") {
		if r := sn["locks"][id]; r.I("expires_at") <= ref.locks {
			bad = append(bad, fmt.Sprintf("lock %s past its lease %d", id, r.I("expires_at")-Base))
		}
	}
	for _, id := range sn.Keys("schedules") {
		if r := sn["schedules"][id]; r.I("next_run_time") <= ref.schedules {
			bad = append(bad, fmt.Sprintf("schedule %s next run %d in the past", id, r.I("next_run_time")-Base))
		}
	}
	for _, id := range sn.Keys("tasks") {
		if r := sn["tasks"][id]; tasks && r.I("state")&(tEnqueued|tClaimed) != 0 && (r.I("expires_at") <= ref.tasks || r.I("timeout") <= ref.tasks) {
			bad = append(bad, fmt.Sprintf("task %s %s past its lease %d / timeout %d", id, stateName(r.I("state")), r.I("expires_at")-Base, r.I("timeout")-Base))
		}
	}
	return bad
}

// TestC11 — background processing converges for every batch/queue configuration.
func TestC11(t *testing.T) {
	var lastLabels []string
	var lastSig string
	var lastNontriv bool
	c := Campaign{
		Prop:  "C11",
		Rule:  "phase 1: rapid builds a reachable backlog with a generated workload (promises with short time-outs, routed promises and registrations => tasks, claims with short leases, locks, schedules whose period exceeds the signal timeout) on a kernel without background work; the clock jumps ahead; phase 2: the kernel restarts with all five background coroutines and a drawn configuration (every knob in its documented range incl. batch sizes 1 and coroutine pool 1), no client requests, a finite drawn failure phase (store/router/hand-off failures, optional crash), then failures stop. A cycle = clock + signal timeout, ticks until nothing is in flight. Oracle: within B = ceil(backlog_k/batch_k) summed + catch-up occurrences + slack cycles the five quiescence predicates of the statement hold and keep holding; no task stays dispatchable for more than its bound of consecutive cycles; every cycle's background work settles. Non-trivial: backlog exceeds a batch size in >=1 dimension, or the coroutine pool is smaller than the number of background coroutines.",
		Fatal: []string{"C11"},
	}
	c.Custom = func(d D, dir string) (*Sim, []Violation) {
		var vs []Violation
		add := func(code, key, f string, a ...any) {
			vs = append(vs, Violation{"C11", code, key, fmt.Sprintf(f, a...)})
		}
		// ---- phase 1: backlog ----
		g := DefaultGen(d)
		g.Pids = []string{"p1", "p2", "p3", "p4", "r"}
		g.Scheds = []string{"sch1", "sch2", "sch3"}
		// periods >= 60 s: with <= 3 schedules and a signal timeout <= 10 s at most 0.5 occurrences arrive per cycle,
		// below the service rate of even a schedule batch size of one (otherwise lag grows without any defect)
		g.Crons = []string{"* * * * *", "@every 1m", "*/2 * * * *", "@every 90s", "0 * * * * *"}
		g.TimeoutDeltas = []int64{1000, 3000, 8000, 20000, 60000}
		g.RouteOneIn = 2
		g.SchedRouteOneIn = 3 // some schedules fire routed promises (promise + task through the create-with-task path)
		g.W = map[string]int{"CreatePromise": 8, "CreatePromiseAndTask": 2, "CreateCallback": 4, "CreateSubscription": 3, "CompletePromise": 3, "AcquireLock": 3, "CreateSchedule": 3, "ClaimTask": 4, "HeartbeatTasks": 1}
		s := New(d, BigConfig(), Profile{Permute: true, Hold: 8, Cut: 2, SendFail: 0}, dir)
		g.Dispatched = func() [][2]any {
			var out [][2]any
			sn := s.Snaps[s.CurSnap()]
			for _, id := range sn.Keys("tasks") {
				out = append(out, [2]any{id, int(sn["tasks"][id].I("counter"))})
			}
			return out
		}
		for i, steps := 0, d.Int(2, 8, "steps"); i < steps; i++ {
			for n := d.Int(1, 6, "nreq"); n > 0; n-- {
				rq := g.Req(s.Now)
				if rq.Kind == t_api.CreateSchedule {
					// scheduled promises must not become overdue within the horizon: otherwise firing schedules are a
					// sustained source of new work whose rate may legitimately exceed a batch size of one per cycle
					rq.CreateSchedule.PromiseTimeout = 3600_000
				}
				if rq.Kind == t_api.ClaimTask && d.Bool("longlease") {
					rq.ClaimTask.Ttl = 3600_000 // a holder with a long lease: only the task's own timeout can end it
				}
				s.Submit(rq)
			}
			s.Advance([]int64{0, 1, 500, 1000}[d.Uni(4, "dt")])
			s.Tick()
			s.Tick()
		}
		// the ordinary life of a worker: it claims the invocation of a root with a long lease, awaits another promise
		// (registration with that root), the awaited promise completes => a resume task of a root that is busy (its
		// invocation is still claimed) waits in init next to the dispatchable tasks of other roots
		for f, flows := 0, d.Int(0, 2, "awaitflows"); f < flows; f++ {
			root, leaf := g.pick(g.Pids, "awaitroot"), g.pick(g.Pids, "awaitleaf")
			if root == leaf {
				continue
			}
			step := func(rq *t_api.Request) { s.Submit(rq); s.Tick(); s.Tick(); s.Tick() }
			cr := g.CreateReq(s.Now, root)
			cr.Timeout = s.Now + 3600_000
			cr.Tags = map[string]string{"resonate:invoke": "poll://g/w"}
			step(&t_api.Request{Kind: t_api.CreatePromise, CreatePromise: cr})
			lf := g.CreateReq(s.Now, leaf)
			lf.Timeout = s.Now + 3600_000
			step(&t_api.Request{Kind: t_api.CreatePromise, CreatePromise: lf})
			ctr := 1
			if tk, ok := s.Snaps[s.CurSnap()]["tasks"]["__invoke:"+root]; ok {
				ctr = int(tk.I("counter"))
			}
			step(&t_api.Request{Kind: t_api.ClaimTask, ClaimTask: &t_api.ClaimTaskRequest{Id: "__invoke:" + root, Counter: ctr, ProcessId: "w1", Ttl: 3600_000}})
			step(&t_api.Request{Kind: t_api.CreateCallback, CreateCallback: &t_api.CreateCallbackRequest{Id: fmt.Sprintf("cb.%s.%s", root, leaf), PromiseId: leaf, RootPromiseId: root, Timeout: s.Now + 3600_000, Recv: []byte(`"poll://g/w"`)}})
			step(&t_api.Request{Kind: t_api.CompletePromise, CompletePromise: &t_api.CompletePromiseRequest{Id: leaf, State: promise.Resolved}})
		}
		s.Drain(40)
		// ---- downtime ----
		s.Advance([]int64{0, 2000, 10000, 30000, 61000, 120000}[d.Uni(6, "downtime")])
		cfg := GenConfig(d, 1)
		s.Cfg = cfg
		s.Prof.Bg = AllBg
		if d.Bool("bgorder") { // "every order in which the five background coroutines are interleaved": registration order too
			bg := append([]string{}, AllBg...)
			for i := len(bg) - 1; i > 0; i-- {
				k := d.Uni(i+1, "bgperm")
				bg[i], bg[k] = bg[k], bg[i]
			}
			s.Prof.Bg = bg
		}
		s.Crash()
		st := cfg.SignalTimeout.Milliseconds()
		cycle := func() bool {
			s.Advance(st)
			for i := 0; i < 4000; i++ {
				s.Tick()
				if s.Quiet() {
					return true
				}
			}
			return false
		}
		// ---- failure phase ----
		fcycles := d.Int(0, 3, "failcycles")
		if fcycles > 0 {
			s.Prof.FailBefore, s.Prof.FailAfter, s.Prof.RouterFail, s.Prof.SendFail, s.Prof.SendLose = 4, 5, 4, 8, 6
			s.Prof.Hold = 4
			for i := 0; i < fcycles; i++ {
				cycle()
				if d.OneIn(6, "crashinrecovery") {
					s.Crash()
				}
			}
		}
		s.Prof.FailBefore, s.Prof.FailAfter, s.Prof.RouterFail, s.Prof.SendFail, s.Prof.SendLose, s.Prof.Hold, s.Prof.Crash = 0, 0, 0, 0, 0, 6, 0
		// ---- convergence ----
		start := s.Snaps[s.CurSnap()]
		b := measure(start, s.Now)
		ceil := func(a, n int) int { return (a + n - 1) / n }
		nSched := len(start["schedules"])
		// catch-up: one occurrence per schedule per cycle; new occurrences arrive at most st/15000 per cycle and schedule
		catchup := 0
		if b.occurrences > 0 {
			catchup = 2*b.occurrences + 2
		}
		roots := map[string]bool{}
		for _, tk := range start["tasks"] {
			if tk.I("state")&(tInit|tEnqueued|tClaimed) != 0 {
				roots[tk.S("root_promise_id")] = true
			}
		}
		for _, cb := range start["callbacks"] { // registrations become tasks when their promise times out during the run
			roots[cb.S("root_promise_id")] = true
		}
		// unclaimed tasks are re-dispatched for ever (enqueued -> lease end -> init -> ...): that is sustained work; the
		// statement's bound is only demanded when one batch can hold every root, otherwise only starvation is looked for
		tasksFit := len(roots) <= cfg.TaskBatchSize
		pending := 0
		for _, pr := range start["promises"] {
			if pr.I("state") == pPending {
				pending++
			}
		}
		promiseLag := ceil(max(1, pending), cfg.PromiseBatchSize) + 1
		taskLag := ceil(max(1, len(roots)), cfg.TaskBatchSize) + 2
		bound := ceil(pending, cfg.PromiseBatchSize) + ceil(b.expiredTasks, cfg.TaskBatchSize) + ceil(b.dispatchable, cfg.TaskBatchSize) +
			ceil(catchup*max(1, nSched), cfg.ScheduleBatchSize) + 8
		taskBound := 4
		if !tasksFit {
			taskBound = 8*ceil(len(roots), cfg.TaskBatchSize) + 8
		}
		schedLag := ceil(max(1, nSched), cfg.ScheduleBatchSize) + 1
		dispatchRun := map[string]int{}
		slack := map[string]int{} // task -> consecutive cycles it stayed dispatchable although the cycle had room left
		idle := map[string]int{}  // background coroutine -> consecutive cycles without a new instance
		converged := -1
		times := []int64{s.Now}
		at := func(lag int) int64 { return times[max(0, len(times)-1-lag)] }
		for k := 1; k <= bound+6; k++ {
			if !cycle() {
				add("settle", "", "cycle %d: background work did not settle within 4000 ticks (config %s)", k, cfg)
				break
			}
			// every background coroutine starts a new instance in every cycle (each instance begins with a store read)
			cycleStart := times[len(times)-1]
			for _, name := range s.Prof.Bg {
				ran := false
				for i := len(s.Txs) - 1; i >= 0 && s.Txs[i].Tick > cycleStart; i-- {
					if s.Txs[i].Name == name {
						ran = true
						break
					}
				}
				if ran {
					idle[name] = 0
				} else if idle[name]++; idle[name] >= 3 {
					add("stuck", "", "background coroutine %s has not started a new instance for %d cycles: its previous instance never finished (config %s)", name, idle[name], cfg)
				}
			}
			sn := s.Snaps[s.CurSnap()]
			// routed scheduled promises add roots (and tasks) while the run goes on: the task dimension is sized by the
			// roots present so far, not only by those of the initial backlog
			for _, tk := range sn["tasks"] {
				if tk.I("state")&(tInit|tEnqueued|tClaimed) != 0 {
					roots[tk.S("root_promise_id")] = true
				}
			}
			if tasksFit = len(roots) <= cfg.TaskBatchSize; !tasksFit {
				taskBound = max(taskBound, 8*ceil(len(roots), cfg.TaskBatchSize)+8)
			}
			taskLag = max(taskLag, ceil(max(1, len(roots)), cfg.TaskBatchSize)+2)
			bad := quiescent(sn, refTimes{promises: at(promiseLag), locks: at(1), schedules: at(schedLag), tasks: at(taskLag)}, tasksFit)
			times = append(times, s.Now)
			// tasks the dispatch cycle took out of init in this cycle: a cycle that takes fewer than its batch size had room left
			handoffs := 0
			for i := len(s.Txs) - 1; i >= 0 && s.Txs[i].Tick > cycleStart; i-- {
				if !strings.HasPrefix(s.Txs[i].Name, "EnqueueTasks") {
					continue
				}
				for _, c := range s.Txs[i].Diff {
					// a slot of the batch is used by a hand-off, or by retiring a task whose own time-out has passed
					if c.Table == "tasks" && c.After != nil && c.Before != nil && c.Before.I("state") == tInit && c.After.I("state") != tInit {
						handoffs++
					}
				}
			}
			cur := map[string]bool{}
			for _, id := range dispatchableTasks(sn, s.Now) {
				cur[id] = true
				// starvation that the known finding F22 does not explain: F22 needs the batch to be filled, cycle after
				// cycle, by other tasks that are handed off again; a dispatchable task that waits while the cycle had room
				// left is passed over for another reason
				if handoffs < cfg.TaskBatchSize {
					if slack[id]++; slack[id] >= 4 {
						add("dispatch", "", "task %s has been dispatchable (init, no enqueued/claimed sibling) for %d consecutive cycles in each of which the dispatch cycle took fewer tasks out of init (%d in the last) than its batch size %d while hand-offs succeed (%d roots, config %s)", id, slack[id], handoffs, cfg.TaskBatchSize, len(roots), cfg)
						delete(slack, id)
					}
				} else {
					delete(slack, id)
				}
				dispatchRun[id]++
				if dispatchRun[id] > taskBound {
					key := ""
					if !tasksFit {
						key = "C11:dispatch-starvation-unclaimed-tasks"
					}
					add("dispatch", key, "task %s has been dispatchable (init, no enqueued/claimed sibling) for %d consecutive cycles while hand-offs succeed, bound %d (%d roots, config %s)", id, dispatchRun[id], taskBound, len(roots), cfg)
					delete(dispatchRun, id)
				}
			}
			for id := range dispatchRun {
				if !cur[id] {
					delete(dispatchRun, id)
				}
			}
			for id := range slack {
				if !cur[id] {
					delete(slack, id)
				}
			}
			if len(vs) > 0 {
				break
			}
			if len(bad) == 0 && converged < 0 {
				converged = k
			}
			if len(bad) > 0 {
				// new work keeps arriving while the clock advances (promises reach their deadline, schedules their
				// next occurrence, unclaimed tasks their lease end): a momentarily satisfied predicate is not
				// convergence; what is demanded is that from the bound on every predicate holds with its lag
				converged = -1
			}
			if k >= bound && len(bad) > 0 {
				sort.Strings(bad)
				add("bound", "", "after %d cycles (bound %d for backlog %+v, config %s, background order %v): %v", k, bound, b, cfg, s.Prof.Bg, bad)
				break
			}
			if converged >= 0 && k >= bound+3 {
				break
			}
		}
		lastLabels = nil
		big := b.overduePromises > cfg.PromiseBatchSize || b.expiredTasks+b.dispatchable > cfg.TaskBatchSize || b.dueSchedules > cfg.ScheduleBatchSize
		if big {
			lastLabels = append(lastLabels, "backlog>batch")
		}
		if cfg.CoroutineMaxSize < 5 {
			lastLabels = append(lastLabels, "coroutine-pool<5")
		}
		if fcycles > 0 {
			lastLabels = append(lastLabels, "failure-phase")
		}
		if b.occurrences > 1 {
			lastLabels = append(lastLabels, "schedule-catch-up")
		}
		lastLabels = append(lastLabels, fmt.Sprintf("converged-in<=%d", []int{1, 2, 4, 8, 16, 1000}[bucket(converged)]))
		lastNontriv = big || cfg.CoroutineMaxSize < 5
		lastSig = fmt.Sprintf("%s|%+v|%v|%d", cfg, b, s.Prof.Bg, fcycles)
		return s, vs
	}
	c.Classify = func(s *Sim) ([]string, bool, string) { return lastLabels, lastNontriv, lastSig }
	RunCampaign(t, c)
}

func bucket(k int) int {
	for i, b := range []int{1, 2, 4, 8, 16} {
		if k >= 0 && k <= b {
			return i
		}
	}
	return 5
}

// TestRegressC11: background starvation with a coroutine pool smaller than the number of background coroutines (F12).
func TestRegressC11(t *testing.T) {
	runScenarios(t, "C11", []scenario{{name: "F12-pool-of-one", props: []string{"C11"}, run: func(s *Sim) {
		s.Submit(&t_api.Request{Kind: t_api.AcquireLock, AcquireLock: &t_api.AcquireLockRequest{ResourceId: "res", ExecutionId: "e", ProcessId: "w", Ttl: 1000}})
		s.Submit(createP("p", Base+1000, map[string]string{"resonate:invoke": "poll://g/w"}))
		s.ticks(6)
		cfg := *BigConfig()
		cfg.CoroutineMaxSize = 1
		cfg.SignalTimeout = time.Second
		s.Cfg = &cfg
		s.Prof.Bg = AllBg
		s.Advance(5000)
		s.Crash()
		for k := 0; k < 12; k++ {
			s.Advance(1000)
			for i := 0; i < 50; i++ {
				s.Tick()
			}
		}
		if bad := quiescent(s.Snaps[s.CurSnap()], refTimes{s.Now - 1000, s.Now - 1000, s.Now - 1000, s.Now - 2000}, true); len(bad) > 0 {
			s.Problems = append(s.Problems, fmt.Sprintf("C11 after 12 cycles with a coroutine pool of 1: %v", bad))
		}
	}}})
}
