package sim

import (
	"fmt"
	"os"
	"strings"
	"testing"
	"time"

	"github.com/resonatehq/resonate/internal/kernel/t_api"
	"github.com/resonatehq/resonate/internal/verif/core"
	"pgregory.net/rapid"
)

func c06Case(d D) *Case {
	g := DefaultGen(d)
	g.Pids = []string{"p1", "p2", "r"}
	g.RouteOneIn = 2
	g.W = map[string]int{"CreatePromise": 5, "CreatePromiseAndTask": 1, "CompletePromise": 4, "CreateCallback": 3, "CreateSubscription": 3, "ReadPromise": 1, "ClaimTask": 2, "CompleteTask": 1,
		"AcquireLock": 1, "CreateSchedule": 2, "DeleteSchedule": 1}
	g.TimeoutDeltas = []int64{500, 1000, 2000, 5000}
	g.Crons = []string{"* * * * * *", "*/2 * * * * *", "@every 3s"}
	cfg := GenConfig(d, 8)
	cfg.SignalTimeout = time.Second
	return &Case{Cfg: cfg, Prof: Profile{Bg: AllBg, Permute: true, Hold: 6, Cut: 2, SendFail: 6, CommitFail: 25}, Gen: g, Steps: [2]int{2, 7}, MaxRq: 3,
		Dts: []int64{0, 0, 1, 500, 1000, -1, -3}, Settle: 2, Prime: 2, StopOnCrash: true}
}

// judgeCrashRun evaluates D1-D4 on a run that crashed (or on the crash-free base run).
func judgeCrashRun(s *Sim) []Violation {
	var vs []Violation
	add := func(code, f string, a ...any) { vs = append(vs, Violation{"C06", code, "", fmt.Sprintf(f, a...)}) }
	// D1: at the moment a success response is delivered its effect is already committed
	for _, r := range s.Reqs {
		if !r.Done || r.Err != nil || r.Res == nil {
			continue
		}
		sn := s.Snaps[r.ResSnap]
		switch r.Res.Kind {
		case t_api.CreatePromise, t_api.CreatePromiseAndTask:
			id := reqPromiseId(r.Req)
			if r.Res.Status() == t_api.StatusCreated {
				if _, ok := sn["promises"][id]; !ok {
					add("D1", "%s acknowledged (201) before the promise was committed", r)
				}
				if r.Res.Kind == t_api.CreatePromiseAndTask {
					if _, ok := sn["tasks"]["__invoke:"+id]; !ok {
						add("D1", "%s acknowledged (201) before its task was committed", r)
					}
				}
			}
		case t_api.CompletePromise:
			if r.Res.Status() == t_api.StatusCreated {
				if row, ok := sn["promises"][r.Req.CompletePromise.Id]; !ok || row.I("state") != int64(r.Req.CompletePromise.State) {
					add("D1", "%s acknowledged (201) before the completion was committed: %s", r, core.RowString(row))
				}
			}
		case t_api.CreateCallback, t_api.CreateSubscription:
			if r.Res.Status() == t_api.StatusCreated {
				var id string
				if r.Res.Kind == t_api.CreateCallback {
					id = r.Res.CreateCallback.Callback.Id
				} else {
					id = r.Res.CreateSubscription.Callback.Id
				}
				_, cb := sn["callbacks"][id]
				_, tk := sn["tasks"][id]
				if !cb && !tk {
					add("D1", "%s acknowledged (201) before the registration was committed", r)
				}
			}
		case t_api.CreateSchedule:
			if r.Res.Status() == t_api.StatusCreated {
				if _, ok := sn["schedules"][r.Req.CreateSchedule.Id]; !ok {
					// deleted again by a concurrent delete? then some snapshot in the window had it
					found := false
					for i := r.SubmitSnap; i <= r.ResSnap; i++ {
						if _, ok := s.Snaps[i]["schedules"][r.Req.CreateSchedule.Id]; ok {
							found = true
						}
					}
					if !found {
						add("D1", "%s acknowledged (201) before the schedule was committed", r)
					}
				}
			}
		case t_api.ClaimTask:
			if r.Res.Status() == t_api.StatusCreated {
				found := false
				for i := r.SubmitSnap; i <= r.ResSnap; i++ {
					if row, ok := s.Snaps[i]["tasks"][r.Req.ClaimTask.Id]; ok && row.I("state") == tClaimed && row.S("process_id") == r.Req.ClaimTask.ProcessId {
						found = true
					}
				}
				if !found {
					add("D1", "%s acknowledged (201) but the claim was never committed", r)
				}
			}
		}
	}
	// D3: every committed state is free of torn requests
	seen := map[string]bool{}
	for i, sn := range s.Snaps {
		for _, v := range JudgeSnapshot(sn) {
			if !seen[v.Msg] {
				seen[v.Msg] = true
				add("D3", "committed state #%d is torn: %s", i, v.Msg)
			}
		}
	}
	// requests in flight at the crash: effect in at most one transaction (all or nothing)
	txsBy := map[string]int{}
	for _, tx := range s.Txs {
		if len(OwnEffect(tx.Diff)) > 0 {
			txsBy[tx.ReqId]++
		}
	}
	for _, r := range s.Reqs {
		if txsBy[r.Id] > 1 {
			add("D3", "%s took effect in %d separate transactions (a crash between them would tear it)", r, txsBy[r.Id])
		}
	}
	return vs
}

// recover runs the fixed recovery policy after a crash: no faults, everything in order, a bounded number
// of background cycles (optionally a second crash in the middle), then reads every promise back.
func recoverAndJudge(s *Sim, secondCrashCycle int, downtime int64) []Violation {
	var vs []Violation
	add := func(code, f string, a ...any) { vs = append(vs, Violation{"C06", code, "", fmt.Sprintf(f, a...)}) }
	s.D = D{}
	s.Prof.FailBefore, s.Prof.FailAfter, s.Prof.RouterFail, s.Prof.SendFail, s.Prof.SendLose, s.Prof.Hold, s.Prof.Crash = 0, 0, 0, 0, 0, 0, 0
	atCrash := s.Snaps[s.CurSnap()]
	st := s.Cfg.SignalTimeout.Milliseconds()
	s.Advance(downtime) // the process stays down for a while: occurrences, time-outs and leases fall due meanwhile
	times := []int64{s.Now}
	for k := 1; k <= 14; k++ {
		s.Advance(st)
		quiet := false
		for i := 0; i < 3000; i++ {
			s.Tick()
			if s.Quiet() {
				quiet = true
				break
			}
		}
		if !quiet {
			add("D4", "after the restart background work does not settle (cycle %d)", k)
			return vs
		}
		times = append(times, s.Now)
		if k == secondCrashCycle {
			s.CrashAt = -1
			s.Crash()
		}
	}
	// D4: background processing resumed from the stored state
	roots := map[string]bool{}
	for _, tk := range atCrash["tasks"] {
		roots[tk.S("root_promise_id")] = true
	}
	ref := times[len(times)-4]
	bad := quiescent(s.Snaps[s.CurSnap()], refTimes{promises: ref, locks: ref, schedules: ref, tasks: ref}, len(roots) <= s.Cfg.TaskBatchSize)
	// "resumes from the stored state" is not a convergence claim (that is C11): a sweep that in every cycle after ref
	// serves as many rows as it can (its batch size, or every eligible row; a schedule advances one occurrence per
	// cycle) has resumed, however large the arrivals (per-second schedules out-produce a promise batch size of one
	// and never catch up a lag at one cycle per second; the promise sweep reads in no particular order). Only a
	// sweep that leaves eligible rows behind while serving fewer than it could has not resumed.
	atFullSpeed := func(prefix, table string, batch int, eligible func(r core.Row, now int64) bool, isServed func(c core.Change) bool) bool {
		type cyc struct{ eligible, served int }
		perCycle := map[string]*cyc{}
		for _, tx := range s.Txs {
			if tx.Tick <= ref || !strings.HasPrefix(tx.ReqId, prefix) {
				continue
			}
			cy := perCycle[tx.ReqId]
			if cy == nil {
				// the cycle's first transaction is its read: count what was eligible then
				cy = &cyc{}
				perCycle[tx.ReqId] = cy
				for _, row := range tx.Pre[table] {
					if eligible(row, tx.Dispatch) {
						cy.eligible++
					}
				}
			}
			for _, c := range tx.Diff {
				if c.Table == table && isServed(c) {
					cy.served++
				}
			}
		}
		if len(perCycle) < 3 {
			return false
		}
		for _, cy := range perCycle {
			if cy.served < min(batch, cy.eligible) {
				return false
			}
		}
		return true
	}
	promSat := atFullSpeed("TimeoutPromises:", "promises", s.Cfg.PromiseBatchSize,
		func(r core.Row, now int64) bool { return r.I("state") == pPending && r.I("timeout") <= now },
		func(c core.Change) bool {
			return c.Before != nil && c.After != nil && c.Before.I("state") == pPending && c.After.I("state") != pPending
		})
	schedSat := atFullSpeed("SchedulePromises:", "schedules", s.Cfg.ScheduleBatchSize,
		func(r core.Row, now int64) bool { return r.I("next_run_time") <= now },
		func(c core.Change) bool {
			return c.Before != nil && c.After != nil && c.Before.I("next_run_time") != c.After.I("next_run_time")
		})
	var really []string
	for _, b := range bad {
		if (strings.HasPrefix(b, "promise ") && promSat) || (strings.HasPrefix(b, "schedule ") && schedSat) {
			continue
		}
		really = append(really, b)
	}
	if len(really) > 0 {
		add("D4", "14 cycles after the restart the stored backlog has not been worked off: %v (config %s)", really, s.Cfg)
	}
	// nothing that was committed at the crash is lost or altered other than by legitimate background transitions:
	// promises keep their creation half and completed promises their completion half (C01 judged over the whole trace)
	final := s.Snaps[s.CurSnap()]
	for _, id := range atCrash.Keys("promises") {
		b, a := atCrash["promises"][id], final["promises"][id]
		if a == nil {
			add("D1", "promise %s committed before the crash is gone after recovery", id)
			continue
		}
		for _, f := range []string{"param_data", "param_headers", "timeout", "tags", "idempotency_key_for_create", "created_on"} {
			if fmt.Sprint(b[f]) != fmt.Sprint(a[f]) {
				add("D1", "promise %s: %s changed across the restart", id, f)
			}
		}
		if b.I("state") != pPending {
			for _, f := range []string{"state", "value_data", "value_headers", "idempotency_key_for_complete", "completed_on"} {
				if fmt.Sprint(b[f]) != fmt.Sprint(a[f]) {
					add("D1", "completed promise %s: %s changed across the restart", id, f)
				}
			}
		}
	}
	for _, id := range atCrash.Keys("schedules") {
		if _, ok := final["schedules"][id]; !ok {
			add("D1", "schedule %s committed before the crash is gone after recovery", id)
		}
	}
	return vs
}

// TestC06 — crash-point enumeration in the simulator (tier a of C06).
func TestC06(t *testing.T) {
	stats := core.NewStats("C06", "rapid draws a case (config, workload incl. routed promises, registrations, completions, claims, schedules; schedule with holds, batches, hand-off failures); the case is run once to count its K crash opportunities (before every submission of every flush = before/after every store commit and between any two coroutine steps, incl. background sweeps, and at the end of every flush) and then RE-RUN with the recorded decisions once per crash opportunity (all when K <= cap, else evenly sampled), crashing exactly there, then a fixed recovery (restart on the same database file, 14 background cycles, optionally a second crash during recovery). Oracle D1-D4. An evaluation = one (case, crash point) run. Non-trivial: the crash hits while a request is in flight that has already committed at least one transaction. Distinct = (case shape, crash point).")
	dir := core.Scratch("verif-c06-")
	defer os.RemoveAll(dir)
	defer stats.Write()
	capK := 24
	if core.Tier() == "thorough" {
		capK = 250
	}
	rapid.Check(t, func(rt *rapid.T) {
		j := &Journal{}
		d := D{T: rt, J: j}
		second := rapid.IntRange(0, 6).Draw(rt, "secondcrash") // 0 = no second crash
		cs := c06Case(d)
		base := RunCase(d, cs, dir)
		base.Drain(60)
		K := base.CrashPos
		fail := func(s *Sim, v Violation, k int) {
			dump := s.TraceDump()
			dump["violation"] = v.String()
			dump["crash_point"] = fmt.Sprintf("%d of %d", k, K)
			core.SaveFailure("last", dump)
			rt.Fatalf("VIOLATION %s (crash point %d of %d)", v, k, K)
		}
		stats.Eval()
		baseAll := Judge(base)
		for _, v := range append(judgeCrashRun(base), filterProps(baseAll, "C06")...) {
			fail(base, v, -1)
		}
		baseMsgs := map[string]bool{}
		for _, v := range baseAll {
			baseMsgs[v.Prop+v.Code] = true
		}
		baseSig := ShapeSignature(base)
		base.Close()
		stride := 1
		if K > capK {
			stride = (K + capK - 1) / capK
		}
		off := 0
		if stride > 1 {
			off = rapid.IntRange(0, stride-1).Draw(rt, "offset")
		}
		for k := off; k < K; k += stride {
			dr := D{J: j.Replay()}
			cv := c06Case(dr)
			cv.CrashAt = k + 1
			s := RunCase(dr, cv, dir)
			if s.Inc == 0 {
				s.Drain(60) // crash opportunities of the final drain (deterministic in the base run as well)
			}
			stats.Eval()
			if s.Inc == 0 {
				// the opportunity was not reached (cannot happen with a faithful replay)
				s.Close()
				rt.Fatalf("harness: replay did not reach crash opportunity %d of %d", k, K)
			}
			inflight, partial := 0, false
			for _, r := range s.Reqs {
				if r.Lost {
					inflight++
					for _, tx := range s.Txs {
						if tx.ReqId == r.Id {
							partial = true
						}
					}
				}
			}
			vs := judgeCrashRun(s)
			vs = append(vs, recoverAndJudge(s, second, []int64{0, 0, 1500, 5000, 30000}[k%5])...)
			all := Judge(s)
			vs = append(vs, filterProps(all, "C06")...)
			known := core.KnownKeys()
			for _, v := range all {
				switch {
				case (v.Prop == "C05" && v.Code == "J2") || (v.Prop == "C08" && (v.Code == "B1" || v.Code == "B2")) || (v.Prop == "C01" && v.Code == "I1"):
					// torn effects show up as C05-J2 / C08-B1,B2 on the transactions before the crash: they count for C06 here
					vs = append(vs, Violation{"C06", "D3/" + v.Prop + "-" + v.Code, v.Key, v.Msg})
				case v.Prop != "C06" && v.Prop != "C12" && !(v.Key != "" && known[v.Key]) && !baseMsgs[v.Prop+v.Code]:
					// "background processing resumes from the stored state": whatever the statement-derived oracles of the
					// other properties (occurrences fired once and in order, time-outs, leases, dispatch) object to in the
					// crashed-and-recovered run but not in the crash-free run of the same case is a loss across the restart
					vs = append(vs, Violation{"C06", "D4/" + v.Prop + "-" + v.Code, "", "after the crash and recovery (downtime included): " + v.Msg})
				}
			}
			switch {
			case partial:
				stats.Class("crash-with-partially-committed-request-in-flight")
				stats.Nontriv(fmt.Sprintf("%s|%d", baseSig, k), map[string]any{"crash_point": fmt.Sprintf("%d of %d", k, K), "case": sampleOf(s)})
			case inflight > 0:
				stats.Class("crash-with-request-in-flight")
			default:
				stats.Class("crash-while-idle-or-background-only")
			}
			if second > 0 {
				stats.Class("second-crash-during-recovery")
			}
			for _, v := range vs {
				if v.Key != "" && core.IsKnown(v.Key) {
					stats.KnownFinding(v.Key)
					PrintKnown(v.Prop, v.Key, v.Msg)
					continue
				}
				fail(s, v, k)
			}
			s.Close()
		}
		stats.ClassN("crash-points-total", K)
	})
}

func filterProps(vs []Violation, prop string) []Violation {
	var out []Violation
	for _, v := range vs {
		if v.Prop == prop {
			out = append(out, v)
		}
	}
	return out
}
