//go:build verif

package sender

import (
	"github.com/resonatehq/resonate/internal/aio"
	"github.com/resonatehq/resonate/internal/metrics"
	"github.com/resonatehq/resonate/pkg/receiver"
)

// NewVerifWorker builds the production SenderWorker with injected targets and plugins
// (verification hook: add-only, compiled only with -tags verif through the /verif overlay).
func NewVerifWorker(a aio.AIO, m *metrics.Metrics, targets map[string]*receiver.Recv, plugins ...aio.Plugin) *SenderWorker {
	w := &SenderWorker{
		plugins: map[string]aio.Plugin{},
		targets: targets,
		aio:     a,
		metrics: m,
	}
	for _, p := range plugins {
		w.AddPlugin(p)
	}
	return w
}

// VerifWorker exposes the worker of a Sender built by New (with its target table, including the
// default target New adds), so that recording plugins can be attached with AddPlugin.
func (s *Sender) VerifWorker() *SenderWorker { return s.worker }

// VerifSetAIO lets the harness receive the worker's completions.
func (w *SenderWorker) VerifSetAIO(a aio.AIO) { w.aio = a }
