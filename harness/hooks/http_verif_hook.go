//go:build verif

package http

import "net/http"

// VerifHandler exposes the fully routed handler of the production HTTP front end (verification hook:
// add-only, compiled only with -tags verif through the /verif overlay).
func (h *Http) VerifHandler() http.Handler { return h.server.Handler }
