//go:build verif

package sqlite

import (
	"database/sql"

	"github.com/resonatehq/resonate/internal/kernel/bus"
	"github.com/resonatehq/resonate/internal/kernel/t_aio"
	"github.com/resonatehq/resonate/internal/metrics"
)

// NewVerif builds the production store on an injected connection pool (verification hook: add-only,
// compiled only with -tags verif through the /verif overlay). The worker is not started; callers use Process.
func NewVerif(db *sql.DB, m *metrics.Metrics, config *Config) (*SqliteStore, error) {
	sq := make(chan *bus.SQE[t_aio.Submission, t_aio.Completion], 1)
	if _, err := db.Exec(CREATE_TABLE_STATEMENT); err != nil {
		return nil, err
	}
	return &SqliteStore{
		config: config,
		sq:     sq,
		db:     db,
		worker: &SqliteStoreWorker{config: config, db: db, sq: sq, flush: make(chan int64, 1), metrics: m},
	}, nil
}
