//go:build verif

package postgres

import (
	"database/sql"

	"github.com/resonatehq/resonate/internal/kernel/bus"
	"github.com/resonatehq/resonate/internal/kernel/t_aio"
	"github.com/resonatehq/resonate/internal/metrics"
)

// NewVerif builds the production Postgres store on an injected connection pool (verification hook:
// add-only, compiled only with -tags verif through the /verif overlay). Workers are not started;
// callers use Process. The schema is created exactly as Start does.
func NewVerif(db *sql.DB, m *metrics.Metrics, config *Config) (*PostgresStore, error) {
	sq := make(chan *bus.SQE[t_aio.Submission, t_aio.Completion], 1)
	if _, err := db.Exec(CREATE_TABLE_STATEMENT); err != nil {
		return nil, err
	}
	w := &PostgresStoreWorker{config: config, i: 0, db: db, sq: sq, flush: make(chan int64, 1), metrics: m}
	return &PostgresStore{config: config, sq: sq, db: db, workers: []*PostgresStoreWorker{w}}, nil
}
