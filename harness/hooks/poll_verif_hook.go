//go:build verif

package poll

import (
	"time"

	"github.com/resonatehq/resonate/internal/aio"
	"github.com/resonatehq/resonate/internal/metrics"
	"github.com/resonatehq/resonate/pkg/message"
)

// Verification hooks (add-only, compiled only with -tags verif through the /verif overlay): the production
// PollWorker loop (Start) on harness-owned channels. The hook touches struct fields only, never the
// registry's methods, so that it keeps compiling when those are refactored.

type VerifConn struct{ c *connection }

func (v *VerifConn) Chan() chan []byte { return v.c.ch }
func (v *VerifConn) Group() string     { return v.c.group }
func (v *VerifConn) Id() string        { return v.c.id }

type VerifLoop struct {
	w          *PollWorker
	sq         chan *aio.Message
	connect    chan *connection
	disconnect chan *connection
	done       chan struct{}
}

// NewVerifLoop starts the production worker loop with an empty registry.
func NewVerifLoop(max int, m *metrics.Metrics) *VerifLoop {
	counter := m.AioConnection.WithLabelValues((&Poll{}).String())
	l := &VerifLoop{sq: make(chan *aio.Message, 16), connect: make(chan *connection, 16), disconnect: make(chan *connection, 16), done: make(chan struct{})}
	l.w = &PollWorker{
		sq:         l.sq,
		metrics:    m,
		counter:    counter,
		connect:    l.connect,
		disconnect: l.disconnect,
		connections: connections{
			max:   max,
			cnt:   counter,
			conns: map[string][]*connection{},
		},
	}
	go func() { l.w.Start(); close(l.done) }()
	return l
}

func drained[T any](ch chan T) {
	for len(ch) > 0 {
		time.Sleep(20 * time.Microsecond)
	}
}

// Connect registers a connection the way the HTTP handler does (connect channel) and waits until the loop has applied it.
func (l *VerifLoop) Connect(group, id string, buffer int) *VerifConn {
	c := &connection{group: group, id: id, ch: make(chan []byte, buffer)}
	l.connect <- c
	drained(l.connect)
	l.Barrier()
	return &VerifConn{c}
}

// Disconnect unregisters a connection the way the HTTP handler does when its request context ends.
func (l *VerifLoop) Disconnect(v *VerifConn) {
	l.disconnect <- v.c
	drained(l.disconnect)
	l.Barrier()
}

// Send processes one message through the loop and returns once its Done callback has run.
func (l *VerifLoop) Send(m *aio.Message) {
	done := make(chan struct{})
	inner := m.Done
	m.Done = func(ok bool, err error) { inner(ok, err); close(done) }
	l.sq <- m
	<-done
}

// Barrier returns after the loop has processed a message sent after everything submitted so far.
func (l *VerifLoop) Barrier() {
	l.Send(&aio.Message{Type: message.Invoke, Data: []byte(`{"group":"\u0000verif-barrier"}`), Body: nil, Done: func(bool, error) {}})
}

// Len is the registry's connection count (call after a Barrier).
func (l *VerifLoop) Len() int { return l.w.connections.len }

// Stop shuts the loop down the way Poll.Stop does: the submission queue first, then the connection channels.
func (l *VerifLoop) Stop() {
	close(l.sq)
	// Poll.Stop closes the connection channels only after the HTTP server has stopped, i.e. after the worker has
	// closed every listener's channel (their handlers return then). Here: wait until the loop has emptied its
	// registry (a plain read of the counter the loop maintains), however slow the machine is.
	for i := 0; i < 200000 && l.w.connections.len > 0; i++ {
		time.Sleep(50 * time.Microsecond)
	}
	time.Sleep(200 * time.Microsecond)
	close(l.connect)
	close(l.disconnect)
	<-l.done
}
