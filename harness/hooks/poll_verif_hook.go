//go:build verif

package poll

import (
	"github.com/resonatehq/resonate/internal/metrics"
)

// Verification hooks (add-only, compiled only with -tags verif through the /verif overlay): a
// single-threaded driver over the production connection registry and PollWorker.Process.

type VerifConn struct{ c *connection }

func (v *VerifConn) Chan() chan []byte { return v.c.ch }
func (v *VerifConn) Group() string     { return v.c.group }
func (v *VerifConn) Id() string        { return v.c.id }

// NewVerifWorker builds a PollWorker with an empty registry and no goroutines.
func NewVerifWorker(max int, m *metrics.Metrics) *PollWorker {
	counter := m.AioConnection.WithLabelValues((&Poll{}).String())
	return &PollWorker{
		metrics: m,
		counter: counter,
		connections: connections{
			max:   max,
			cnt:   counter,
			conns: map[string][]*connection{},
		},
	}
}

// VerifConnect registers a new connection exactly as the worker loop does for a value read from the connect channel.
func (w *PollWorker) VerifConnect(group, id string, buffer int) *VerifConn {
	c := &connection{group: group, id: id, ch: make(chan []byte, buffer)}
	w.connections.add(c)
	return &VerifConn{c}
}

// VerifDisconnect unregisters a connection exactly as the worker loop does for a value read from the disconnect channel.
func (w *PollWorker) VerifDisconnect(v *VerifConn) { w.connections.rmv(v.c, true) }

// VerifLen is the registry's connection count.
func (w *PollWorker) VerifLen() int { return w.connections.len }
