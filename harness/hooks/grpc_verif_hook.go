//go:build verif

package grpc

import (
	i_api "github.com/resonatehq/resonate/internal/api"
	"github.com/resonatehq/resonate/internal/app/subsystems/api"
	"github.com/resonatehq/resonate/internal/app/subsystems/api/grpc/pb"
)

// VerifServer is the set of service interfaces the production gRPC server implements.
type VerifServer interface {
	pb.PromisesServer
	pb.CallbacksServer
	pb.SubscriptionsServer
	pb.SchedulesServer
	pb.LocksServer
	pb.TasksServer
}

// NewVerifServer returns the production gRPC service implementation without a listener (verification
// hook: add-only, compiled only with -tags verif through the /verif overlay).
func NewVerifServer(a i_api.API) VerifServer { return &server{api: api.New(a, "grpc")} }
