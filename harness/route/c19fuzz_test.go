package route

import (
	"encoding/json"
	"fmt"
	"reflect"
	"strings"
	"testing"
	"unicode/utf8"

	"github.com/prometheus/client_golang/prometheus"
	"github.com/resonatehq/resonate/internal/app/subsystems/aio/router"
	"github.com/resonatehq/resonate/internal/app/subsystems/aio/sender"
	"github.com/resonatehq/resonate/internal/kernel/t_aio"
	"github.com/resonatehq/resonate/internal/metrics"
	"github.com/resonatehq/resonate/pkg/message"
	"github.com/resonatehq/resonate/pkg/promise"
	"github.com/resonatehq/resonate/pkg/task"
)

// checkTag runs one routing tag value through the real router and the real sender worker (default source table,
// targets "default" and "foo", both transports present and accepting) and compares with the reference resolution.
func checkTag(tag string) error {
	keys := []string{"resonate:invoke"}
	targets := map[string][2]string{"default": {"poll", `{"group":"default"}`}, "foo": {"http", `{"url":"http://t"}`}}
	tags := map[string]string{"resonate:invoke": tag}
	m := metrics.New(prometheus.NewRegistry())
	rtr, err := router.New(nil, m, &router.Config{Size: 1, Workers: 1})
	if err != nil {
		return nil
	}
	p := &promise.Promise{Id: "p", State: promise.Pending, Timeout: 9, Tags: tags}
	cq := rtr.Process([]*SQE{{Id: "r", Submission: &t_aio.Submission{Kind: t_aio.Router, Tags: map[string]string{"id": "r"}, Router: &t_aio.RouterSubmission{Promise: p}}, Callback: func(*t_aio.Completion, error) {}}})
	if len(cq) != 1 || cq[0].Error != nil || cq[0].Completion == nil || cq[0].Completion.Router == nil {
		return fmt.Errorf("router did not answer with exactly one completion for tag %q: %v", tag, cq)
	}
	got := cq[0].Completion.Router
	want := refRoute(keys, tags)
	if got.Matched != (want != nil) {
		return fmt.Errorf("tag %q: router matched=%v recv=%s, reference says route=%v", tag, got.Matched, got.Recv, want != nil)
	}
	if want == nil {
		return nil
	}
	if want.logical != nil {
		var s string
		if json.Unmarshal(got.Recv, &s) != nil || s != *want.logical {
			return fmt.Errorf("tag %q: logical name must be kept as is, router produced %s", tag, got.Recv)
		}
	} else {
		var r struct {
			Type string          `json:"type"`
			Data json.RawMessage `json:"data"`
		}
		var wantData, gotData any
		_ = json.Unmarshal(want.physData, &wantData)
		if json.Unmarshal(got.Recv, &r) != nil || r.Type != want.physType || (json.Unmarshal(r.Data, &gotData) != nil && len(r.Data) > 0) || !reflect.DeepEqual(gotData, wantData) {
			return fmt.Errorf("tag %q: physical receiver {%s %s} expected, router produced %s", tag, want.physType, want.physData, got.Recv)
		}
	}
	rec := &recorder{}
	snd, err := sender.New(rec, m, &sender.Config{Size: 1, Targets: []sender.TargetConfig{{Name: "foo", Type: "http", Data: json.RawMessage(`{"url":"http://t"}`)}}})
	if err != nil {
		return nil
	}
	w := snd.VerifWorker()
	w.VerifSetAIO(rec)
	plugins := map[string]*plugin{"poll": {typ: "poll", next: "success"}, "http": {typ: "http", next: "success"}}
	w.AddPlugin(plugins["poll"])
	w.AddPlugin(plugins["http"])
	tk := &task.Task{Id: "__invoke:p", Counter: 1, Timeout: 9, State: task.Enqueued, RootPromiseId: "p", Recv: got.Recv, Mesg: &message.Mesg{Type: message.Invoke, Root: "p", Leaf: "p"}}
	w.Process(&SQE{Id: "s", Submission: &t_aio.Submission{Kind: t_aio.Sender, Tags: map[string]string{"id": "s"}, Sender: &t_aio.SenderSubmission{Task: tk, Promise: p, ClaimHref: "c", CompleteHref: "d", HeartbeatHref: "h"}}, Callback: func(*t_aio.Completion, error) {}})
	if len(rec.cqes) != 1 {
		return fmt.Errorf("tag %q: sender produced %d completions for one submission", tag, len(rec.cqes))
	}
	d := refResolve(want, targets)
	ncalls := 0
	var called *plugin
	for _, pl := range plugins {
		ncalls += len(pl.calls)
		if len(pl.calls) > 0 {
			called = pl
		}
	}
	if d == nil || plugins[d.plugin] == nil {
		if ncalls != 0 || rec.cqes[0].Error == nil {
			return fmt.Errorf("tag %q resolves to no transport, yet %d plugin calls / completion %v", tag, ncalls, rec.cqes[0].Completion)
		}
		return nil
	}
	if ncalls != 1 || called.typ != d.plugin {
		return fmt.Errorf("tag %q: message must be handed to exactly the %s transport once, %d calls", tag, d.plugin, ncalls)
	}
	var gotData any
	if json.Unmarshal(called.calls[0].Data, &gotData) != nil && len(called.calls[0].Data) > 0 {
		return fmt.Errorf("tag %q: transport data is not JSON: %s", tag, called.calls[0].Data)
	}
	// (the reference value goes through JSON as well: what a percent-escape decodes to need not be valid UTF-8, and
	// JSON, the form in which receiver data reaches a transport, cannot carry that)
	var wantData any
	if b, err := json.Marshal(d.data); err == nil {
		_ = json.Unmarshal(b, &wantData)
	}
	if !reflect.DeepEqual(gotData, wantData) {
		return fmt.Errorf("tag %q: transport %s got data %s, want %v", tag, d.plugin, called.calls[0].Data, d.data)
	}
	return nil
}

// FuzzC19Tag — coverage-guided adjunct of C19 (thorough tier): the bytes of a routing tag value against the same
// reference resolution. In the quick tier only the seed corpus runs (as plain sub-tests).
func FuzzC19Tag(f *testing.F) {
	for _, s := range []string{"", "default", "foo", "poll://g/i", "poll://g", "poll://", "http://h.test/p?q=1", "https://x", "ftp://x", "null", "true", "false", "0", "1e3", `"quoted"`, `"poll://g/i"`, "[]", `["a"]`, "{}",
		`{"type":"poll","data":{"group":"g"}}`, `{"type":"poll","data":{"group":"g","id":"i/j"}}`, `{"type":"http","data":{"url":"http://t","headers":{"a":"b"}}}`, `{"type":"poll"}`, `{"data":{}}`, `{"type":"poll","data":null}`,
		`{"type":1,"data":{}}`, `{"Type":"poll","Data":{"group":"g"}}`, `{"type":"kafka","data":{}}`, ` {"type":"poll","data":{"group":"g"}}`, `{"type":"poll","data":{"group":"g"}} x`, `{not json`, "a b", "é", "\x00", "poll://g/i/j", "poll://g//", "://", "http://", "poll:/g", "POLL://g/i"} {
		f.Add(s)
	}
	f.Fuzz(func(t *testing.T, tag string) {
		if !utf8.ValidString(tag) {
			// tag values reach the server as JSON or protobuf strings: neither can carry invalid UTF-8
			t.Skip()
		}
		if dupKeys(tag) {
			// an object naming the same field twice (also in another letter case): the statement is silent on which
			// occurrence counts, the reference does not take a side
			t.Skip()
		}
		if err := checkTag(tag); err != nil {
			t.Fatalf("VIOLATION C19 %v", err)
		}
	})
}

// dupKeys reports whether the top-level JSON object in s names a field twice, letter case ignored.
func dupKeys(s string) bool {
	dec := json.NewDecoder(strings.NewReader(s))
	tok, err := dec.Token()
	if err != nil || tok != json.Delim('{') {
		return false
	}
	seen := map[string]bool{}
	for dec.More() {
		k, err := dec.Token()
		if err != nil {
			return false
		}
		ks, ok := k.(string)
		if !ok {
			return false
		}
		if seen[strings.ToLower(ks)] {
			return true
		}
		seen[strings.ToLower(ks)] = true
		var v json.RawMessage
		if dec.Decode(&v) != nil {
			return false
		}
	}
	return false
}
