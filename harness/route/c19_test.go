// Package route decides C19: receiver resolution is deterministic, tasks go where the routing tag says.
package route

import (
	"bytes"
	"encoding/json"
	"fmt"
	"net/url"
	"reflect"
	"strings"
	"testing"

	"github.com/prometheus/client_golang/prometheus"
	"github.com/resonatehq/resonate/internal/aio"
	"github.com/resonatehq/resonate/internal/app/subsystems/aio/router"
	"github.com/resonatehq/resonate/internal/app/subsystems/aio/sender"
	"github.com/resonatehq/resonate/internal/kernel/bus"
	"github.com/resonatehq/resonate/internal/kernel/t_aio"
	"github.com/resonatehq/resonate/internal/metrics"
	"github.com/resonatehq/resonate/internal/verif/core"
	"github.com/resonatehq/resonate/pkg/message"
	"github.com/resonatehq/resonate/pkg/promise"
	"github.com/resonatehq/resonate/pkg/task"
	"pgregory.net/rapid"
)

type SQE = bus.SQE[t_aio.Submission, t_aio.Completion]
type CQE = bus.CQE[t_aio.Submission, t_aio.Completion]

// recorder is the AIO the sender worker reports to.
type recorder struct{ cqes []*CQE }

func (r *recorder) String() string                               { return "recorder" }
func (r *recorder) Start() error                                 { return nil }
func (r *recorder) Stop() error                                  { return nil }
func (r *recorder) Shutdown()                                    {}
func (r *recorder) Errors() <-chan error                         { return nil }
func (r *recorder) Signal(<-chan interface{}) <-chan interface{} { return nil }
func (r *recorder) Flush(int64)                                  {}
func (r *recorder) Dispatch(*t_aio.Submission, func(*t_aio.Completion, error)) {
}
func (r *recorder) EnqueueSQE(*SQE)       {}
func (r *recorder) EnqueueCQE(c *CQE)     { r.cqes = append(r.cqes, c) }
func (r *recorder) DequeueCQE(int) []*CQE { return nil }

type plugin struct {
	typ   string
	next  string
	calls []*aio.Message
}

func (p *plugin) String() string           { return "rec:" + p.typ }
func (p *plugin) Type() string             { return p.typ }
func (p *plugin) Start(chan<- error) error { return nil }
func (p *plugin) Stop() error              { return nil }
func (p *plugin) Enqueue(m *aio.Message) bool {
	p.calls = append(p.calls, m)
	switch p.next {
	case "full":
		return false
	case "error":
		m.Done(false, fmt.Errorf("transport error"))
	case "refused":
		m.Done(false, nil)
	default:
		m.Done(true, nil)
	}
	return true
}

// ---- reference (from the statement) ----

type route struct {
	logical  *string
	physType string
	physData json.RawMessage
}

// refRoute: a plain (non-JSON) string is a logical name; a JSON object that is exactly a receiver with a
// non-empty type is a physical receiver; anything else does not route. Sources are tried in order.
func refRoute(sources []string, tags map[string]string) *route {
	for _, key := range sources {
		v, ok := tags[key]
		if !ok {
			continue
		}
		if !json.Valid([]byte(v)) {
			s := v
			return &route{logical: &s}
		}
		var m map[string]json.RawMessage
		dec := json.NewDecoder(bytes.NewReader([]byte(v)))
		if dec.Decode(&m) != nil || m == nil {
			continue
		}
		// field names are matched as Go's JSON decoder does (case-insensitively): the statement does not say otherwise
		exact := true
		var typRaw, dataRaw json.RawMessage
		hasType := false
		for k, v := range m {
			switch strings.ToLower(k) {
			case "type":
				typRaw, hasType = v, true
			case "data":
				dataRaw = v
			default:
				exact = false
			}
		}
		var typ string
		if !exact || !hasType || json.Unmarshal(typRaw, &typ) != nil || typ == "" {
			continue
		}
		m["data"] = dataRaw
		return &route{physType: typ, physData: m["data"]}
	}
	return nil
}

type dest struct {
	plugin string
	data   any // decoded JSON
}

// refResolve: logical name -> configured target, otherwise by URL scheme; physical -> plugin of that type.
func refResolve(r *route, targets map[string][2]string) *dest {
	decode := func(b []byte) any {
		var v any
		if len(b) == 0 || json.Unmarshal(b, &v) != nil {
			return nil
		}
		return v
	}
	if r.logical == nil {
		return &dest{r.physType, decode(r.physData)}
	}
	if t, ok := targets[*r.logical]; ok {
		return &dest{t[0], decode([]byte(t[1]))}
	}
	u, err := url.Parse(*r.logical)
	if err != nil {
		return nil
	}
	switch u.Scheme {
	case "http", "https":
		return &dest{"http", map[string]any{"url": u.String()}}
	case "poll":
		d := map[string]any{"group": u.Host}
		if id := strings.TrimPrefix(u.Path, "/"); id != "" {
			d["id"] = id
		}
		return &dest{"poll", d}
	}
	return nil
}

// ---- generators ----

var tagValues = []string{
	"foo", "default", "t1", "a b", "", "Ünï", // bare words
	"http://h.test/p?q=1", "https://h.test", "poll://g/i", "poll://g", "poll://g/i/j", "poll:///x", "ftp://x/y", "http://", "poll:g", "://bad", // urls
	"1", "1.5", "-0", "null", "true", "false", `"foo"`, `"poll://g/i"`, `[]`, `[{"type":"poll"}]`, `{}`, // json literals
	`{"type":"poll","data":{"group":"g","id":"i"}}`, `{"type":"http","data":{"url":"http://x"}}`, `{"type":"poll"}`, `{"type":"","data":{}}`, `{"data":{"group":"g"}}`,
	`{"type":"poll","data":{"group":"g"},"extra":1}`, `{"type":"kafka","data":{"topic":"t"}}`, ` {"type":"poll","data":{"group":"g"}} `, `{"type":"poll","data":[1,2]}`, `{"type":"poll","data":"str"}`,
	`{"type":1,"data":{}}`, `{"type":"poll","data":{"a":{"b":[1,{"c":null}]}}}`, `{"type":"poll", "data": { "group" : "g" }}`, `{"Type":"poll","data":{}}`,
	`{"type":`, `{type:poll}`, `'foo'`, // invalid json => plain strings
}

func genTag(t *rapid.T, label string) string {
	if rapid.IntRange(0, 5).Draw(t, label+".free") == 0 {
		return rapid.StringMatching(`[a-z:/{}"\[\], 0-9.]{0,12}`).Draw(t, label+".str")
	}
	return rapid.SampledFrom(tagValues).Draw(t, label)
}

func TestC19(t *testing.T) {
	stats := core.NewStats("C19", "rapid draws routing tag values from a JSON-aware grammar (bare words, URLs of every scheme, numbers, literals, quoted strings, arrays, receiver objects with/without type, extra fields, nested data, invalid JSON, free strings), source tables (0..2 tag sources, with/without one named default), target tables (names overlapping URL-looking names), plugin availability, task kind and hand-off outcome. The promise goes through the real router (router.New + Process), the resulting recv through the real sender (sender.New's target table + SenderWorker.Process) with recording plugins. Oracle: independent reference from the statement for (route?, logical/physical) and (plugin, data) and the message body; exactly one completion per submission; success reported only if a transport accepted the message. Non-trivial: the tag is valid JSON, or a logical name that is also a URL or a configured target, or no target matches. Distinct = (tag, tables, kind, outcome).")
	defer stats.Write()
	known := core.KnownKeys()
	_ = known
	rapid.Check(t, func(rt *rapid.T) {
		stats.Eval()
		// ---- tables ----
		var sources []router.SourceConfig
		var keys []string
		hasDefault := false
		for i, n := 0, rapid.IntRange(0, 2).Draw(rt, "nsources"); i < n; i++ {
			key := rapid.SampledFrom([]string{"route", "resonate:invoke", "x"}).Draw(rt, "skey")
			name := rapid.SampledFrom([]string{"s", "default"}).Draw(rt, "sname")
			if name == "default" {
				hasDefault = true
			}
			b, _ := json.Marshal(map[string]string{"Key": key})
			sources = append(sources, router.SourceConfig{Name: name, Type: "tag", Data: b})
			keys = append(keys, key)
		}
		if !hasDefault {
			keys = append(keys, "resonate:invoke")
		}
		targets := map[string][2]string{}
		var tcfg []sender.TargetConfig
		for i, n := 0, rapid.IntRange(0, 3).Draw(rt, "ntargets"); i < n; i++ {
			name := rapid.SampledFrom([]string{"foo", "default", "poll://g/i", "t1", "http://h.test/p?q=1"}).Draw(rt, "tname")
			if _, dup := targets[name]; dup {
				continue
			}
			typ := rapid.SampledFrom([]string{"poll", "http", "kafka"}).Draw(rt, "ttype")
			data := rapid.SampledFrom([]string{`{"group":"tg"}`, `{"url":"http://t"}`, `{"group":"tg","id":"x"}`}).Draw(rt, "tdata")
			targets[name] = [2]string{typ, data}
			tcfg = append(tcfg, sender.TargetConfig{Name: name, Type: typ, Data: json.RawMessage(data)})
		}
		if _, ok := targets["default"]; !ok {
			targets["default"] = [2]string{"poll", `{"group":"default"}`} // documented default target
		}
		tags := map[string]string{}
		for _, k := range []string{"route", "resonate:invoke", "x"} {
			if rapid.IntRange(0, 2).Draw(rt, "has."+k) != 0 {
				tags[k] = genTag(rt, "tag."+k)
			}
		}
		desc := fmt.Sprintf("sources=%v targets=%v tags=%q", keys, targets, tags)
		fail := func(f string, a ...any) {
			msg := fmt.Sprintf(f, a...) + " [" + desc + "]"
			core.SaveFailure("last", map[string]any{"violation": msg})
			rt.Fatalf("VIOLATION C19 %s", msg)
		}
		// ---- router ----
		m := metrics.New(prometheus.NewRegistry())
		rtr, err := router.New(nil, m, &router.Config{Size: 1, Workers: 1, Sources: sources})
		if err != nil {
			rt.Fatalf("router.New: %v", err)
		}
		p := &promise.Promise{Id: "p", State: promise.Pending, Timeout: 9, Tags: tags}
		cq := rtr.Process([]*SQE{{Id: "r", Submission: &t_aio.Submission{Kind: t_aio.Router, Tags: map[string]string{"id": "r"}, Router: &t_aio.RouterSubmission{Promise: p}}, Callback: func(*t_aio.Completion, error) {}}})
		if len(cq) != 1 || cq[0].Error != nil || cq[0].Completion == nil || cq[0].Completion.Router == nil {
			fail("router did not answer with exactly one completion: %v", cq)
		}
		got := cq[0].Completion.Router
		want := refRoute(keys, tags)
		if got.Matched != (want != nil) {
			fail("router matched=%v recv=%s, reference says route=%v", got.Matched, got.Recv, want != nil)
		}
		nontrivial := false
		for _, k := range keys {
			if v, ok := tags[k]; ok && json.Valid([]byte(v)) {
				nontrivial = true
			}
		}
		if want == nil {
			stats.Class("no-route")
			if nontrivial {
				stats.Nontriv("noroute|"+desc, map[string]any{"tags": tags, "sources": keys, "routed": false})
			}
			return
		}
		// the recv stored with the task: logical => JSON string, physical => receiver object
		if want.logical != nil {
			var s string
			if json.Unmarshal(got.Recv, &s) != nil || s != *want.logical {
				fail("logical name %q must be kept as is, router produced %s", *want.logical, got.Recv)
			}
			stats.Class("route-logical")
		} else {
			var r struct {
				Type string          `json:"type"`
				Data json.RawMessage `json:"data"`
			}
			var wantData, gotData any
			_ = json.Unmarshal(want.physData, &wantData)
			if json.Unmarshal(got.Recv, &r) != nil || r.Type != want.physType || (json.Unmarshal(r.Data, &gotData) != nil && len(r.Data) > 0) || !reflect.DeepEqual(gotData, wantData) {
				fail("physical receiver {%s %s} expected, router produced %s", want.physType, want.physData, got.Recv)
			}
			stats.Class("route-physical")
		}
		// ---- sender ----
		rec := &recorder{}
		snd, err := sender.New(rec, m, &sender.Config{Size: 1, Targets: tcfg})
		if err != nil {
			rt.Fatalf("sender.New: %v", err)
		}
		w := snd.VerifWorker()
		w.VerifSetAIO(rec)
		plugins := map[string]*plugin{}
		for _, typ := range []string{"poll", "http"} {
			if rapid.IntRange(0, 4).Draw(rt, "plugin."+typ) != 0 {
				plugins[typ] = &plugin{typ: typ}
				w.AddPlugin(plugins[typ])
			}
		}
		outcome := rapid.SampledFrom([]string{"success", "success", "refused", "error", "full"}).Draw(rt, "outcome")
		for _, pl := range plugins {
			pl.next = outcome
		}
		mt := rapid.SampledFrom([]message.Type{message.Invoke, message.Resume, message.Notify}).Draw(rt, "kind")
		counter := rapid.IntRange(1, 5).Draw(rt, "counter")
		tk := &task.Task{Id: "__" + string(mt) + ":p", Counter: counter, Timeout: 9, State: task.Enqueued, RootPromiseId: "p", Recv: got.Recv, Mesg: &message.Mesg{Type: mt, Root: "p", Leaf: "q"}, CreatedOn: ptr(int64(1))}
		sub := &t_aio.SenderSubmission{Task: tk, Promise: p, ClaimHref: fmt.Sprintf("http://s/tasks/claim/%s/%d", tk.Id, counter), CompleteHref: fmt.Sprintf("http://s/tasks/complete/%s/%d", tk.Id, counter), HeartbeatHref: fmt.Sprintf("http://s/tasks/heartbeat/%s/%d", tk.Id, counter)}
		w.Process(&SQE{Id: "s", Submission: &t_aio.Submission{Kind: t_aio.Sender, Tags: map[string]string{"id": "s"}, Sender: sub}, Callback: func(*t_aio.Completion, error) {}})
		if len(rec.cqes) != 1 {
			fail("sender produced %d completions for one submission", len(rec.cqes))
		}
		c := rec.cqes[0]
		if (c.Completion == nil) == (c.Error == nil) {
			fail("sender completion has both/neither result and error: %v", c)
		}
		d := refResolve(want, targets)
		var called *plugin
		ncalls := 0
		for _, pl := range plugins {
			ncalls += len(pl.calls)
			if len(pl.calls) > 0 {
				called = pl
			}
		}
		if d == nil || plugins[d.plugin] == nil {
			stats.Class("undeliverable")
			if ncalls != 0 {
				fail("address resolves to no available transport (%v) but a plugin was called", d)
			}
			if c.Error == nil {
				fail("undeliverable address (%v) must end in a failed hand-off, got %v", d, c.Completion.Sender)
			}
			stats.Nontriv("undeliverable|"+desc, map[string]any{"tags": tags, "targets": targets, "plugins": len(plugins), "result": "error completion"})
			return
		}
		if ncalls != 1 || called.typ != d.plugin {
			fail("message must be handed to exactly the %s transport once, %d calls (last %v)", d.plugin, ncalls, called)
		}
		msg := called.calls[0]
		var gotData any
		if json.Unmarshal(msg.Data, &gotData) != nil && len(msg.Data) > 0 {
			fail("transport data is not JSON: %s", msg.Data)
		}
		if !reflect.DeepEqual(gotData, d.data) {
			fail("transport %s got data %s, want %v", d.plugin, msg.Data, d.data)
		}
		if msg.Type != mt {
			fail("message type %s, want %s", msg.Type, mt)
		}
		var body map[string]json.RawMessage
		if json.Unmarshal(msg.Body, &body) != nil {
			fail("message body is not JSON: %s", msg.Body)
		}
		var bt string
		_ = json.Unmarshal(body["type"], &bt)
		if bt != string(mt) {
			fail("body type %q, want %q: %s", bt, mt, msg.Body)
		}
		if mt == message.Notify {
			var bp promise.Promise
			if json.Unmarshal(body["promise"], &bp) != nil || bp.Id != "p" || body["task"] != nil {
				fail("notification body must carry the promise: %s", msg.Body)
			}
		} else {
			var bt struct {
				Id      string `json:"id"`
				Counter int    `json:"counter"`
			}
			var href map[string]string
			if json.Unmarshal(body["task"], &bt) != nil || bt.Id != tk.Id || bt.Counter != counter || json.Unmarshal(body["href"], &href) != nil ||
				href["claim"] != sub.ClaimHref || href["complete"] != sub.CompleteHref || href["heartbeat"] != sub.HeartbeatHref {
				fail("body must name task %s counter %d and its claim/complete/heartbeat links: %s", tk.Id, counter, msg.Body)
			}
		}
		switch outcome {
		case "success":
			if c.Error != nil || !c.Completion.Sender.Success {
				fail("transport accepted the message but the hand-off is reported %v / %v", c.Completion, c.Error)
			}
		case "refused":
			if c.Error != nil || c.Completion.Sender.Success {
				fail("transport refused the message but the hand-off is reported %v / %v", c.Completion, c.Error)
			}
		default:
			if c.Error == nil {
				fail("transport failed (%s) but the hand-off is reported %v", outcome, c.Completion.Sender)
			}
		}
		stats.Class("delivered-via-" + d.plugin + ":" + outcome)
		_, isTarget := targets[strOr(want.logical)]
		if nontrivial || isTarget || (want.logical != nil && strings.Contains(*want.logical, "://")) {
			stats.Nontriv(fmt.Sprintf("%s|%s|%s", desc, mt, outcome), map[string]any{"tags": tags, "targets": targets, "recv": string(got.Recv), "plugin": d.plugin, "data": string(msg.Data), "kind": mt, "outcome": outcome})
		}
	})
}

func ptr[T any](v T) *T { return &v }
func strOr(p *string) string {
	if p == nil {
		return "\x00"
	}
	return *p
}
