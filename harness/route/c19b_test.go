package route

import (
	"encoding/json"
	"fmt"
	"io"
	"net/http"
	"net/http/httptest"
	"os"
	"strings"
	"sync"
	"testing"
	"time"

	"github.com/prometheus/client_golang/prometheus"
	httpPlugin "github.com/resonatehq/resonate/internal/app/plugins/http"
	"github.com/resonatehq/resonate/internal/app/subsystems/aio/sender"
	"github.com/resonatehq/resonate/internal/kernel/t_aio"
	"github.com/resonatehq/resonate/internal/metrics"
	"github.com/resonatehq/resonate/internal/verif/core"
	"github.com/resonatehq/resonate/pkg/message"
	"github.com/resonatehq/resonate/pkg/promise"
	"github.com/resonatehq/resonate/pkg/receiver"
	"github.com/resonatehq/resonate/pkg/task"
	"pgregory.net/rapid"
)

// TestC19b — the http transport end of C19 ("an unknown or undeliverable address results in a failed hand-off rather
// than a lost or misdirected message"): the production sender worker with the PRODUCTION http plugin (its queue and
// its worker goroutine) in front of local HTTP receivers. A generated sequence of hand-offs goes through one
// plugin instance, so that anything that leaks from one message to the next is seen.

type got struct {
	server  int
	path    string
	headers http.Header
	body    string
}

type syncRecorder struct {
	mu sync.Mutex
	ch chan *CQE
	recorder
}

func (r *syncRecorder) EnqueueCQE(c *CQE) { r.ch <- c }

func TestC19b(t *testing.T) {
	if os.Getenv("VERIF_PROP") == "" {
		_ = os.Setenv("VERIF_PROP", "C19")
	}
	stats := core.NewStats("C19", "tier (b), http transport: the production sender worker and the production http plugin (queue + worker) in front of two local HTTP receivers (one may answer 503); rapid draws a SEQUENCE of 2-8 hand-offs through the same plugin: logical http:// addresses, configured target names and physical receivers with per-message header sets, receivers without url, with data null / a string / an unknown scheme, notify and invoke/resume messages. Oracle per hand-off: exactly one completion; a receiver that names a url gets exactly one POST at that url carrying this message's body and exactly this receiver's headers (none of an earlier message's); success iff the receiver answered 200; a receiver without a usable url is a failed hand-off and NO server sees a request. Non-trivial: the sequence contains a receiver without url or with fewer headers after one with more. Distinct = sequence shape.")
	defer stats.Write()
	var mu sync.Mutex
	var seen []got
	status := []int{200, 200}
	mk := func(i int) *httptest.Server {
		return httptest.NewServer(http.HandlerFunc(func(w http.ResponseWriter, r *http.Request) {
			b, _ := io.ReadAll(r.Body)
			if strings.HasPrefix(r.URL.Path, "/burst") {
				time.Sleep(15 * time.Millisecond) // a slow receiver: the next messages wait in the transport's queue meanwhile
			}
			mu.Lock()
			seen = append(seen, got{i, r.URL.Path, r.Header.Clone(), string(b)})
			st := status[i]
			mu.Unlock()
			w.WriteHeader(st)
		}))
	}
	srv := []*httptest.Server{mk(0), mk(1)}
	defer srv[0].Close()
	defer srv[1].Close()
	rapid.Check(t, func(rt *rapid.T) {
		stats.Eval()
		m := metrics.New(prometheus.NewRegistry())
		rec := &syncRecorder{ch: make(chan *CQE, 16)}
		hp, err := httpPlugin.New(rec, m, &httpPlugin.Config{Size: 16, Workers: 1, Timeout: 2 * time.Second})
		if err != nil {
			rt.Fatalf("harness: %v", err)
		}
		_ = hp.Start(nil)
		defer func() { _ = hp.Stop() }()
		targets := map[string]*receiver.Recv{"named": {Type: "http", Data: []byte(fmt.Sprintf(`{"url":%q,"headers":{"X-Target":"named"}}`, srv[0].URL+"/named"))}}
		sw := sender.NewVerifWorker(rec, m, targets, hp)
		st1 := rapid.SampledFrom([]int{200, 503, 404}).Draw(rt, "status1") // drawn outside the lock: a Draw panics while rapid shrinks
		mu.Lock()
		status[1] = st1
		mu.Unlock()
		n := rapid.IntRange(2, 8).Draw(rt, "n")
		var shape []string
		nontrivial, maxHeaders := false, 0
		for i := 0; i < n; i++ {
			mu.Lock()
			seen = nil
			mu.Unlock()
			which := rapid.IntRange(0, 1).Draw(rt, "server")
			path := fmt.Sprintf("/m%d", i)
			kind := rapid.SampledFrom([]string{"logical", "named", "physical", "physical", "physical-nourl", "physical-null", "physical-string", "physical-badscheme", "physical-emptyurl"}).Draw(rt, "kind")
			hdrs := map[string]string{}
			for j, k := 0, rapid.IntRange(0, 3).Draw(rt, "nheaders"); j < k; j++ {
				hdrs[fmt.Sprintf("X-M%d-%d", i, j)] = fmt.Sprintf("v%d", j)
			}
			var recv []byte
			wantServer, wantPath := which, path
			wantHeaders := map[string]string{}
			usable := true
			switch kind {
			case "logical":
				recv, _ = json.Marshal(srv[which].URL + path)
			case "named":
				recv, _ = json.Marshal("named")
				wantServer, wantPath, wantHeaders = 0, "/named", map[string]string{"X-Target": "named"}
			case "physical":
				d, _ := json.Marshal(map[string]any{"url": srv[which].URL + path, "headers": hdrs})
				recv = []byte(fmt.Sprintf(`{"type":"http","data":%s}`, d))
				wantHeaders = hdrs
			case "physical-nourl":
				d, _ := json.Marshal(map[string]any{"headers": hdrs})
				recv, usable = []byte(fmt.Sprintf(`{"type":"http","data":%s}`, d)), false
			case "physical-null":
				recv, usable = []byte(`{"type":"http","data":null}`), false
			case "physical-string":
				recv, usable = []byte(`{"type":"http","data":"x"}`), false
			case "physical-badscheme":
				recv, usable = []byte(`{"type":"http","data":{"url":"nope://x/y"}}`), false
			default:
				recv, usable = []byte(`{"type":"http","data":{"url":""}}`), false
			}
			typ := rapid.SampledFrom([]message.Type{message.Invoke, message.Resume, message.Notify}).Draw(rt, "type")
			tid := fmt.Sprintf("t%d", i)
			sub := &t_aio.SenderSubmission{Task: &task.Task{Id: tid, Counter: i + 1, Recv: recv, Mesg: &message.Mesg{Type: typ, Root: "r", Leaf: "l"}}, ClaimHref: "claim/" + tid, CompleteHref: "complete/" + tid, HeartbeatHref: "hb/" + tid}
			if typ == message.Notify {
				sub.Promise = &promise.Promise{Id: "r" + tid, State: promise.Resolved}
			}
			shape = append(shape, fmt.Sprintf("%s/%d", kind, len(wantHeaders)))
			if !usable || len(wantHeaders) < maxHeaders {
				nontrivial = true
			}
			maxHeaders = max(maxHeaders, len(wantHeaders))
			fail := func(f string, a ...any) {
				msg := fmt.Sprintf(f, a...) + fmt.Sprintf("\n hand-off %d of the sequence %v: receiver %s", i+1, shape, recv)
				core.SaveFailure("last", map[string]any{"violation": msg})
				rt.Fatalf("VIOLATION C19 %s", msg)
			}
			sw.Process(&SQE{Id: tid, Submission: &t_aio.Submission{Kind: t_aio.Sender, Tags: map[string]string{"id": tid}, Sender: sub}, Callback: func(*t_aio.Completion, error) {}})
			var cqe *CQE
			select {
			case cqe = <-rec.ch:
			case <-time.After(30 * time.Second):
				fail("no completion for the hand-off within 30 s")
			}
			select {
			case extra := <-rec.ch:
				fail("a second completion for one hand-off: %v", extra)
			case <-time.After(20 * time.Millisecond):
			}
			success := cqe.Error == nil && cqe.Completion != nil && cqe.Completion.Sender != nil && cqe.Completion.Sender.Success
			mu.Lock()
			reqs := append([]got{}, seen...)
			wantStatus := status[wantServer]
			mu.Unlock()
			if !usable {
				if len(reqs) != 0 {
					fail("a receiver without a usable url is undeliverable, yet server %d received POST %s (a misdirected message)", reqs[0].server, reqs[0].path)
				}
				if success {
					fail("a receiver without a usable url was reported as a successful hand-off")
				}
				continue
			}
			if len(reqs) != 1 {
				fail("the receiver's server should have received exactly one request, servers received %d", len(reqs))
			}
			r := reqs[0]
			if r.server != wantServer || r.path != wantPath {
				fail("message POSTed to server %d %s, addressed to server %d %s", r.server, r.path, wantServer, wantPath)
			}
			for k, v := range wantHeaders {
				if r.headers.Get(k) != v {
					fail("the receiver's header %s=%s did not arrive (got %q)", k, v, r.headers.Get(k))
				}
			}
			for k := range r.headers {
				if (strings.HasPrefix(k, "X-M") || k == "X-Target") && wantHeaders[k] == "" {
					found := false
					for wk := range wantHeaders {
						if http.CanonicalHeaderKey(wk) == k {
							found = true
						}
					}
					if !found {
						fail("the request carries header %s=%s which this receiver does not name (leaked from another message)", k, r.headers.Get(k))
					}
				}
			}
			var body map[string]any
			if err := json.Unmarshal([]byte(r.body), &body); err != nil || body["type"] != string(typ) {
				fail("body %s is not this message (%s)", truncate(r.body, 200), typ)
			}
			if typ == message.Notify {
				if p, _ := body["promise"].(map[string]any); p == nil || p["id"] != "r"+tid {
					fail("notification body does not carry promise %s: %s", "r"+tid, truncate(r.body, 200))
				}
			} else if tk, _ := body["task"].(map[string]any); tk == nil || tk["id"] != tid {
				fail("body does not name task %s: %s", tid, truncate(r.body, 200))
			}
			if success != (wantStatus == 200) {
				fail("receiver answered %d but the hand-off was reported success=%v (error %v)", wantStatus, success, cqe.Error)
			}
		}
		// ---- a burst: several hand-offs queued in the transport at once (the dispatch cycle hands off a whole batch
		// before it awaits any of them); each receiver must get ITS message, whatever was encoded after it ----
		mu.Lock()
		seen = nil
		mu.Unlock()
		k := rapid.IntRange(2, 4).Draw(rt, "burst")
		for i := 0; i < k; i++ {
			tid := fmt.Sprintf("burst-task-%d", i)
			d, _ := json.Marshal(map[string]any{"url": fmt.Sprintf("%s/burst%d", srv[i%2].URL, i), "headers": map[string]string{fmt.Sprintf("X-B%d", i): "1"}})
			sub := &t_aio.SenderSubmission{Task: &task.Task{Id: tid, Counter: 10 + i, Recv: []byte(fmt.Sprintf(`{"type":"http","data":%s}`, d)), Mesg: &message.Mesg{Type: message.Invoke, Root: "r", Leaf: "l"}},
				ClaimHref: "claim/" + tid, CompleteHref: "complete/" + tid, HeartbeatHref: "hb/" + tid}
			sw.Process(&SQE{Id: tid, Submission: &t_aio.Submission{Kind: t_aio.Sender, Tags: map[string]string{"id": tid}, Sender: sub}, Callback: func(*t_aio.Completion, error) {}})
		}
		for i := 0; i < k; i++ {
			select {
			case <-rec.ch:
			case <-time.After(30 * time.Second):
				core.SaveFailure("last", map[string]any{"violation": "burst: completion missing"})
				rt.Fatalf("VIOLATION C19 only %d of %d hand-offs of a burst were completed within 30 s", i, k)
			}
		}
		mu.Lock()
		reqs := append([]got{}, seen...)
		mu.Unlock()
		for i := 0; i < k; i++ {
			var mine []got
			for _, r := range reqs {
				if r.path == fmt.Sprintf("/burst%d", i) {
					mine = append(mine, r)
				}
			}
			bad := ""
			if len(mine) != 1 {
				bad = fmt.Sprintf("receiver /burst%d got %d requests", i, len(mine))
			} else {
				var body struct {
					Task struct {
						Id      string `json:"id"`
						Counter int    `json:"counter"`
					} `json:"task"`
					Href map[string]string `json:"href"`
				}
				_ = json.Unmarshal([]byte(mine[0].body), &body)
				tid := fmt.Sprintf("burst-task-%d", i)
				if body.Task.Id != tid || body.Task.Counter != 10+i || body.Href["claim"] != "claim/"+tid || mine[0].headers.Get(fmt.Sprintf("X-B%d", i)) != "1" {
					bad = fmt.Sprintf("receiver /burst%d (task %s counter %d) received %s", i, tid, 10+i, truncate(mine[0].body, 300))
				}
			}
			if bad != "" {
				msg := "of " + fmt.Sprint(k) + " hand-offs queued in the http transport at once, " + bad + ": the body must name that exact task, its counter and its links"
				core.SaveFailure("last", map[string]any{"violation": msg})
				rt.Fatalf("VIOLATION C19 %s", msg)
			}
		}
		if nontrivial {
			stats.Nontriv(strings.Join(shape, ","), map[string]any{"handoffs": shape})
		}
		stats.Class(fmt.Sprintf("handoffs=%d", n))
	})
}

func truncate(s string, n int) string {
	if len(s) > n {
		return s[:n] + "..."
	}
	return s
}
