#!/bin/bash
# seedrows.sh <check|change> [<check|change> …] — re-runs the rows of seeded/RESULTS.md that belong to the given checks or
# changes (rows that do not exist yet are appended) (after a
# check was strengthened) on the scratch worktree $WT and replaces those rows in place; the header gets a note.
WT=${WT:-/tmp/wt}; export WT
cd /verif; OUT=seeded/RESULTS.md; TMP=$(mktemp)
while read -r key checks; do
  [ -z "$key" ] && continue
  for c in $checks; do
    for want in "$@"; do
      [ "$c" = "$want" ] || [ "$key" = "$want" ] || continue
      ./seedtest_wt.sh seeded/$key/patch.diff quick $c > $TMP.one 2>&1
      row=$(sed -E 's/^([A-Za-z0-9-]+)-patch (C[0-9]+) ([A-Za-z]+) \(rc=[0-9]+, ([0-9]+)s\) ?(.*)$/| \1 | \2 | \3 (\4 s) | \5 |/' $TMP.one | sed 's/VIOLATION C[0-9][0-9] //' | cut -c1-420 | head -1)
      echo "$row"
      python3 - "$OUT" "$key" "$c" "$row" <<'EOF'
import sys
out, key, c, row = sys.argv[1:5]
L = open(out).read().split('\n')
pre = '| %s | %s |' % (key, c)
hit = False
for i, l in enumerate(L):
    if l.startswith(pre):
        L[i] = row; hit = True
if not hit:
    L.append(row)
open(out, 'w').write('\n'.join(L))
EOF
    done
  done
done < seeded/CHECKS.txt
rm -f $TMP $TMP.one
note="Rows of $* re-run with the harness at $(git rev-parse --short HEAD) (./seedrows.sh)."
python3 - "$OUT" "$note" <<'EOF'
import sys
out, note = sys.argv[1:3]
L = open(out).read().split('\n')
L.insert(3, note); L.insert(4, '')
open(out, 'w').write('\n'.join(L))
EOF
