#!/usr/bin/env python3
"""Regenerates /verif/MANIFEST.json from the table below (run after adding a check)."""
import json, os, importlib.util

HERE = os.path.dirname(os.path.abspath(__file__))

SIM_NOTE = ("Trusted base: SQLite's own atomic commit; the harness' vaio (≈ internal/aio/aio_dst.go with every choice drawn by rapid) standing in for "
            "the production AIO queues (those are C12's subject); the shadow store that replays every transaction in its own SQL transaction to obtain "
            "per-transaction snapshots (its agreement with the batched primary is itself checked). Absence is not established.")

CHECKS = {
    "C05": dict(engine="sim", category="exploration", design="§3, §4 C05",
                technique="stateful property-based testing (rapid) of the real kernel under a drawn schedule; invariant oracle over per-transaction database snapshots and responses",
                text="Generated search over workloads and schedules (interleaving, batching, holds across ticks, before/after-commit faults, crash/restart) of the real kernel + coroutines + sqlite store; "
                     "oracle J1–J3 from the statement: no registration row without a pending promise, every registration present when its promise leaves pending becomes exactly one fresh task in that very transaction, "
                     "and an acknowledged registration that reports 'pending' is actually stored (or already converted); J5: the stored registration is the one asked for (promise, root, receiver, deadline). Id pools include ids containing ':' (the separator of the derived registration/task ids). Found F1 and F19 on the original tree (both repaired by fix: commits); F17 (two registrations whose derived ids collide through ':') is a listed known finding. "
                     "Exploration is the right level: the property quantifies over interleavings the harness can own completely, but the space is unbounded.",
                note=SIM_NOTE),
}


def simcheck(design, text, technique="stateful property-based testing (rapid) of the real kernel under a drawn schedule; statement-derived invariant oracle over per-transaction snapshots, responses and hand-offs"):
    return dict(engine="sim", category="exploration", design=design, technique=technique, text=text, note=SIM_NOTE)

CHECKS.update({
    "C01": simcheck("§4 C01", "Generated races of conflicting completions, creations, reads, searches, registrations, claims, time-outs, faults and crashes on 3 ids; oracle I1-I4: rows never vanish, creation half frozen, one transition out of pending, then frozen; every promise leaving the server (responses, search hits, claim payloads, notifications) agrees with the stored row at that instant; I5: no promise leaves as pending whose completion was committed before the request was submitted or by the request itself."),
    "C02": simcheck("§4 C02", "Generated workloads of all 17 request kinds over shared ids under every configuration knob and schedule (holds, batches, faults). Oracle (self-differential, atomic-snapshot explanation): every request's response and own effect must be reproduced by running the real coroutine alone on a committed snapshot of its window at a clock value of its window; failed requests must have left nothing or exactly the sequential effect; an effect sits in one transaction; a time-out the explaining run relies on must really be stored by the time of the response; every lock / schedule / task / registration record a response carries must equal a stored row of its window (R1, judged against the database, so also sequentially-wrong answers are seen); every write of the four self-contained background sweeps must be what that sweep writes when run alone on the state it found (an effect acknowledged to a request must not be undone by a sweep deciding on stale rows; F20 and F21 are the listed cases); and, since the reference is the sequential SPEC, the statement-derived oracles of C01, C03-C05, C07-C10 count on this workload as well (findings listed under those properties are left to their checks). A pass is a constructive linearization. Blind to sequentially-wrong behaviour by design (covered by C03/C04/C07/C09/C10). Found F15 (repaired).",
                    technique="stateful property-based testing (rapid) with a differential oracle: concurrent run vs. the same coroutine run alone on the per-transaction snapshot"),
    "C03": simcheck("§4 C03", "Generated histories of create / create-with-task / complete on 1-2 ids crossed with key, strict, state, timing around the deadline, plus exact retries (after response, after lost response, racing, after crash); oracle: status table written from the statement and justified by a committed state inside the request window; at most one creation, one completion and one invocation task per id; no repeat changes a row, and a time-out that a create/complete lets take effect is exactly the time-out (R4). Tier (b): sequential histories of create / create-with-task / complete on one id through HTTP and gRPC of a real server, judged against an executable reference model of the statement and the database file (the path of key, strict flag and requested state through both front ends)."),
    "C04": simcheck("§4 C04", "Generated deadlines on the tick grid with requests and sweeps landing before/at/after them; oracle O1-O4: no pending answer at or after the deadline, no time-out stored or reported before it, timed-out rows AND every timed-out promise a response carries have empty value / no key / completed_on = timeout / resolve-on-timeout honoured, caller state never installed at or after the deadline. F13 (new promise already overdue answered 201 PENDING) is a listed known finding."),
    "C06": dict(engine="sim", category="fault_enumeration", design="§4 C06",
                technique="property-based testing with crash-point enumeration: each generated case is re-run from its recorded decisions once per crash opportunity; invariant oracle over snapshots before/after restart",
                text="Tier (a): every generated case (workload + schedule) is executed once to count its crash opportunities (before/after every store commit, between any two coroutine steps, inside background sweeps, at flush ends) and then re-executed from the recorded decisions with a crash at each of them (all of them when <= cap, evenly sampled otherwise; thorough cap 250), followed by a deterministic recovery on the same database file with an optional second crash. Oracle D1-D4: acknowledged => committed, restart changes nothing, no committed state is torn (registrations of completed promises, routed promise without task, request effect spread over two transactions), the stored backlog is worked off after restart unless the sweep concerned runs at full speed (capacity); the recovery includes a downtime, and whatever the other properties' statement-derived oracles object to in the crashed-and-recovered run but not in the crash-free run of the same case counts as a loss across the restart; commit failures (ambiguous outcome) are injected as well. Tier (b): real process, default store configuration, SIGKILL under load / SIGTERM / SIGINT, 1-3 kill-restart rounds, read-back of every acknowledged create/complete/subscription/schedule/lock, torn-state check on the database file, background sweep resumes; now and then the first start attempt meets a database another process holds locked: it may fail, the file may not vanish.",
                note=SIM_NOTE + " SQLite's fsync/atomic-commit is trusted: a 'crash' drops the kernel with everything in flight and reopens the file. Tier (b) runs a real `resonate serve` (default store configuration) that is SIGKILLed at a drawn wall-clock instant under load or shut down with SIGTERM/SIGINT, restarted on the same file, and every acknowledged write read back (not reproducible in its timing; acknowledged set and server log are saved)."),
    "C07": simcheck("§4 C07", "Generated claim/complete/heartbeat traffic of two workers with current, stale and future counters against lease sweeps, dispatch cycles and promise completion; oracle T1-T6: claims only from unclaimed+matching counter, one success per (task,counter), counters monotone, finished is final, a holder loses the task only after its guaranteed lease (claim / create-with-task or last heartbeat committed before the lease end, + the ttl the holder asked for, not the stored column), by its own completion, task time-out or promise completion; refusals justified by a committed state in the window."),
    "C08": simcheck("§4 C08", "Generated routed/unrouted creations, create-with-task, registrations, completions and claims with the real sender worker and every hand-off outcome, router failures and task batch sizes; oracle B1-B6: invocation task born in the promise's transaction iff the tags route (reference predicate), outstanding tasks finished in the completing transaction, dispatch cycles pick only unclaimed tasks, one per root, none with an enqueued/claimed sibling, enqueued only after success, failed hand-off => attempt+1 and later retry, notify finished after its first attempt, message names (id,counter,links), and every task transition has a cause. Found F18 and F19 (repaired)."),
    "C09": simcheck("§4 C09", "Generated acquire/release/heartbeat of 3 executions x 2 processes on 2 resources with ttl 0..3s, sweeps and clock steps onto lease ends; oracle L1-L5: every response decided on the pre-state of its transaction by a reference model from the statement; the locks table changes only by the holder's release / re-acquire, its process's heartbeat (lease = clock + ttl), or expiry at a tick >= lease end."),
    "C10": simcheck("§4 C10", "Generated schedules (cron grammar, id templates, an id with markup characters, promise tags that route so that firings take the create-with-task path), clock jumps over many occurrences, schedule batch sizes, create/delete/re-create and user-created occurrence promises racing the cycle, faults and crashes; oracle S1-S4 with an independent robfig/cron computation and reference template expansion: occurrences fire once, in order, never early, promise + advance in one transaction, correct promise fields, nothing fires for a deleted incarnation's later occurrences; create/delete answers justified by the stored schedule of the request window (idempotent by key)."),
    "C11": simcheck("§4 C11", "Phase 1 builds a reachable backlog without background work, the clock jumps, the kernel restarts with all five background coroutines (registration order permuted) and a configuration drawn over the documented ranges down to batch sizes and coroutine pool of one; a finite failure phase; then cycles (clock + signal timeout, ticks until settled). Oracle: the statement's quiescence predicates (each compared with the clock of an earlier cycle) hold once a bound computed from all pending work / batch sizes has passed, every cycle settles, every background coroutine keeps being started while idle, no task stays dispatchable beyond its bound, nor for four cycles in each of which the dispatch cycle had room left in its batch (the backlog includes worker flows: claimed root, awaited promise completed, resume task in init behind the busy root). Workloads are kept below service capacity (schedule periods >= 60 s, scheduled promises not overdue) so that lag cannot grow without a defect. Tier (b), production queues: api + aio + sqlite store subsystem (real worker) with completion / submission queues of 1..8, sweeps with batches up to 100, clock owned by the harness: every Tick returns (watchdog) and the backlog of overdue promises and locks is worked off. Found F12 (repaired)."),
    "C14": simcheck("§4 C14", "Generated populations, queries (wildcards, state subsets, tags, limits relative to the match count) and full cursor traversals through encode->token->decode with creations, completions, deletions and time-outs interleaved; oracle R1-R6: returned items match (id pattern, state mask, tags) in the state the page was computed from and carry that state, the cursor keeps the query, no duplicates, newest-first by sort id, page size and cursor presence (populations larger than the largest page included), the server's own cursor is accepted by the API layer both front ends use, everything that matched throughout a completed traversal is returned, overdue promises never reported pending, tampered tokens rejected; thorough tier: native coverage-guided fuzzing of the claims of well-signed forged cursors (the signing key is a constant) against the invariants the kernel asserts."),
    "C18": dict(engine="pollt", category="exploration", design="§5 C18",
                technique="model-based stateful property testing (rapid state machine) of the production PollWorker loop on harness-owned channels against a reference model; plus a wire-level run with real SSE clients",
                text="(a) deterministic: connect / disconnect / reconnect-same-id / drain / send (half of them through the production sender worker: receiver resolution, body, message type) / send-with-malformed-receiver-data sequences over 2 groups, ids incl. empty and slashes, limits and buffers down to 1; reference model = registry of live listeners with FIFO buffers; after every operation every channel the harness ever created is audited (contents, closed exactly when the model says, registry count). (b) wire level: the real plugin on a loopback port with SSE clients and churn; each body read at most once, only in its group, only if reported delivered. Found F11 (data null crashes the transport), repaired.",
                note="(a) runs the real PollWorker.Start loop in one goroutine on channels the harness owns (hook VerifLoop only constructs it) and synchronises through barrier messages sent down the same channel, so outcomes are deterministic; the HTTP handler and real network timing are only covered by (b), which samples real scheduling; time-outs there are classified inconclusive, never a violation. The random choice among group members is judged by a validity predicate."),
    "C19": dict(engine="route", category="exploration", design="§5 C19",
                technique="property-based testing (rapid) of the real router and sender worker against an independent reference resolution written from the statement; model-based sequences through the production http plugin; native coverage-guided fuzzing (go test -fuzz) of the routing tag bytes against the same reference in the thorough tier",
                text="Routing tag values from a JSON-aware grammar plus free strings, source tables (order, default), target tables overlapping URL-looking names, plugin availability, task kind and hand-off outcome; the promise goes through router.New/Process, the recv through sender.New's target table and SenderWorker.Process with recording plugins. Oracle: route/no-route and logical/physical classification, (transport, data) resolution, message body naming task id/counter/links or the promise, exactly one completion per submission, success only when a transport accepted. Tier (b): the production sender with the PRODUCTION http plugin in front of local HTTP receivers, sequences of hand-offs through one worker (receivers with and without url, per-message headers, 200/503): one POST at the receiver's url with exactly its headers, success iff 200, a receiver without a usable url is a failed hand-off and nobody receives anything. Found F6 (tag value null crashes the router), repaired.",
                note="Recording plugins stand in for the poll/http transports (those are C18 and C13/C20). JSON field names are matched case-insensitively like Go's decoder (the statement is silent). Receiver data is compared as JSON values."),
    "C12": dict(engine="kernelq", category="exploration", design="§5 C12",
                technique="stateful property testing (rapid state machine) of the production api/aio queues and system.Tick with a harness-stepped subsystem; plus a goroutine stress run judged after Loop returned",
                text="(a) deterministic: one goroutine drives submit / burst / tick / complete-one / shutdown on the production internal/api queue, internal/aio completion queue and system.Tick with every size (api queue, completion queue, subsystem queue, coroutine pool, batch sizes) down to 1; oracle: exactly one answer per request at quiescence, door refusals only when the queue can be full (occupancy interval), shutting-down for requests after Shutdown, payload echoed to its own request, Done() reached after Shutdown with everything accepted answered, also when Shutdown meets an idle system; a Tick that does not return within 5 s is a violation (the kernel is the only consumer of its queues); store.Process answers every submission of a batch exactly once, in order, with its own result; the kernel's refusals (shutting down, queues full: errors without a cause) are rendered as responses by every endpoint of both front ends (exhaustive). (b) stress: real clients, echo + sqlite workers (1 ns tx timeout => natural failures), Loop and Shutdown; judged after Loop and all clients returned: no request answered twice or never; shutdown-race trials (F16, found and repaired); lonely requests: one sequential client on an idle production api + aio + sqlite store (batch size 10) + Loop, each of 2 000 / 20 000 requests answered (nothing but the loop's periodic wake-up rescues a submission left in a partially collected store batch).",
                note="(b) samples Go scheduler interleavings (not reproducible; its seed only selects sizes); a run whose clients or Loop do not return in 30 s is classified inconclusive, not a violation. The window between the a.done check in EnqueueSQE and Loop's exit (F16) was observed by the shutdown-race trials and repaired in /repo (f84215b)."),
    "C13": dict(engine="proc", category="exploration", design="§5 C13",
                technique="grammar + dictionary mutation fuzzing of a real server process over HTTP and gRPC, stateful poison-pill scenarios, restart on the same database, automatic bisection of a failing batch to a minimal request list",
                text="A real `resonate serve` built from the tree. Generated batches of scenarios: valid skeletons of every endpoint of both protocols x one mutation (absent, empty, null, negative, 0, +-2^31, +-2^63, 1e100, wrong type, 64 KiB, hostile dictionary: JSON literals, template syntax, separators, receivers of every shape, URLs, cron oddities, forged/damaged cursors), stateful scenarios that store hostile data and trigger its later processing (routing, time-out, registration conversion + dispatch through the real sender/poll/http plugins incl. http receivers nothing listens on, schedule firing: schedules hostile in one dimension at a time - cron, id template, other fields - or in all, twins with a constant promise id; dictionaries are walked so that a batch of 40-90 scenarios uses distinct entries), status walks: ordinary client behaviour the kernel must refuse (task / lock / promise / schedule / registration refusals) through both protocols; and overload rounds (servers started with an api queue or coroutine pool of 1, bursts of reads over both protocols: every request answered, process alive). After each batch: > 10 background cycles, health check, kill, restart on the same file, cycles, health check. Oracle: process alive and answering, background dispatch still alive (a probe promise routed to a poll listener is delivered after the batch), every request answered, certainly-invalid requests answered 400/InvalidArgument leaving no row, no 5xx for client input. A death or wedge is bisected on fresh servers to a minimal request list within a time budget (rapid's own shrinking is off for this engine). Found and repaired F2, F4, F7, F8, F9, F10, F23 (and F6, F11 through C19/C18).",
                note="Timing is wall-clock (background cycle 200 ms, waits of 2.6 s / 1.5 s); a slow machine can make a health check miss a deadline: such runs show as wedge reports whose bisection does not reproduce. The dictionary is the corpus; absence of further crashes is not established."),
    "C20": dict(engine="proc", category="exploration", design="§5 C20",
                technique="property-based round-trip testing (rapid) against a real server process: write through one protocol, read through both, incl. messages received by a real poll listener, and again after a restart",
                text="Unicode-heavy ids/keys/maps (separators, markup, quotes, spaces, dots, combining marks, astral, bidi/zero-width, template and JSON syntax, NUL via gRPC), data bytes of every value up to 4 KiB, time-outs over the whole int64 range; written via HTTP or gRPC and read via both: read, search, completion value, claim payload, invoke and notify bodies received by a real SSE listener (one at a time, and 2-6 invocations / notifications dispatched together to their own listeners), schedule read and the promises a schedule creates (two schedules with different tags falling due in the same sweep); everything re-read after a restart; ids differing only in case / whitespace / trailing slash / normalisation form / percent-encoding must be distinct promises; derived ids embed the client id verbatim. Found F3 (HTML-escaped schedule ids), repaired.",
                note="Idempotency keys written through HTTP are restricted to header-safe strings (HTTP trims and forbids control characters in header values: a transport limit, not the server's). Receiver descriptions are not returned by any read; they are checked through delivery to the listener they name."),
    "C15": dict(engine="front", category="exploration", design="§5 C15",
                technique="exhaustive enumeration of the (endpoint x kernel status x response shape x delivery) matrix against a stub kernel, plus property-based differential testing (rapid) of HTTP vs gRPC request translation",
                text="Part 1 enumerates completely, on every run, every endpoint of both protocols x every StatusCode constant (parsed from t_api/status.go at run time) x every response shape the operation's coroutine can return, delivered as response status and as t_api.Error, through the real gin handler and the real gRPC service methods: no panic / dropped reply, HTTP code = status/100 with a parsable error body carrying the status, gRPC OK message or the documented code class, outcome flags consistent with the status. Part 2 generates well-formed requests in both protocols and requires the same t_api.Request to reach the kernel, including the link forms GET /tasks/{claim,complete,heartbeat}/:id/:counter against the spelled-out gRPC request with the HTTP front end configured with task frequencies from 1 ms to 90 min. Found F5 (statuses missing from tables; released flag), repaired.",
                note="The stub kernel stands in for the coroutines: only shapes taken from their return sites are delivered (never a 201 claim without task, which the kernel asserts away). The gRPC methods are called directly (hook NewVerifServer), not through a network listener; proto marshalling is exercised by the proc engine (C13/C20)."),
    "C16": dict(engine="storepbt", category="exploration", design="§5 C16",
                technique="model-based property testing (rapid): real sqlite store vs an executable in-memory reference model, metamorphic batch-vs-single relation, driver-level fault injection enumerated over every statement position",
                text="Generated sequences of batches of transactions of all 27 command kinds (tiny argument pools incl. task ids a later create-with-task derives, realistic and tiny times, guard lists with repeated and reordered states) through store.Process on the real sqlite store. Oracle: reference model of the five tables (every Result, every table after every Execute through a second connection; validity predicates for unordered reads); batch vs one-transaction-per-batch equality; an injected failure at EVERY statement position and at commit (wrapping database/sql driver) and natural errors must fail every submission and leave the pre-batch tables; at every statement boundary another connection still sees the pre-batch tables.",
                note="Trusted base: the reference model (≈450 lines, written from the statement plus the rule that a CompleteTasks following a no-op UpdatePromise of the same promise in the same transaction is skipped — the F19 repair); SQLite itself; the hook sqlite.NewVerif that injects the instrumented connection. sort_id is compared as an order only."),
    "C17": dict(engine="storepbt", category="exploration", design="§5 C17",
                technique="differential property testing (rapid): the real postgres.go code path executed through a dialect-translating driver (pgsim) vs the sqlite backend and the reference model",
                text="No Postgres can run in the sandbox. The unmodified postgres.go (SQL text, argument order, result handling) runs on pgsim, a database/sql driver translating the Postgres dialect to SQLite by generic token rules ($n, casts, @>, DISTINCT ON, DDL types with 4-byte range CHECKs, case-sensitive LIKE). The C16 generator drives both backends from the same state; both must satisfy the reference model and hold equal decoded tables after every batch. Found F14 (callbacks.timeout INTEGER), repaired.",
                note="Assumption: pgsim's rules are Postgres' semantics for exactly the constructs postgres.go uses; an unknown construct yields INCONCLUSIVE (exit 2). Outside the compared domain (documented dialect differences): text collation, LIKE escapes, tag keys containing '.', '[' or empty, SERIAL gaps."),
})

TIER_F = " Tier (f), front ends: generated well-formed requests of this property's operations are rendered to HTTP and to gRPC and must reach the kernel (stub) as the same request through the real gin handler and the real gRPC service methods, so that the fields the statement speaks about travel unchanged through both protocols."
for _pid in ("C01", "C02", "C04", "C05", "C07", "C08", "C09", "C10", "C14"):
    CHECKS[_pid]["text"] += TIER_F

NOT_APPLICABLE = []

ENGINES = [
    dict(name="proc", path="harness/proc", kind_free_text="real `resonate serve` subprocess built from the tree: process control, HTTP + gRPC clients, read-only observer on the sqlite file, batch bisection"),
    dict(name="kernelq", path="harness/kernelq", kind_free_text="production api/aio queues + system.Tick/Loop/Shutdown: deterministic state machine and goroutine stress"),
    dict(name="pollt", path="harness/pollt", kind_free_text="poll transport: single-threaded registry driver + reference model; wire-level SSE run"),
    dict(name="route", path="harness/route", kind_free_text="real router + sender worker with recording plugins vs reference receiver resolution"),
    dict(name="front", path="harness/front", kind_free_text="stub kernel behind the real gin handler and gRPC service implementation; exhaustive status matrix + generated request equivalence"),
    dict(name="storepbt", path="harness/storepbt", kind_free_text="store command generator + executable reference model + failing/observing database/sql driver + pgsim (Postgres dialect on SQLite)"),
    dict(name="sim", path="harness/sim", kind_free_text="deterministic simulator: real system.System/api/coroutines/sqlite store/router/sender worker behind a rapid-driven AIO (schedule, faults, crashes are draws); per-transaction snapshots; statement-derived oracles"),
]


def main():
    spec = importlib.util.spec_from_file_location("props", os.path.join(HERE, "props.py"))
    m = importlib.util.module_from_spec(spec)
    spec.loader.exec_module(m)
    props = m.props(lambda pkg, test, quick, thorough, level="exploration", regress=None, extra_env=None: dict(pkg=pkg, level=level))
    checks = []
    for pid in sorted(CHECKS):
        c = CHECKS[pid]
        assert pid in props, pid
        checks.append({
            "property_id": pid,
            "quick_cmd": "./check %s quick" % pid,
            "thorough_cmd": "./check %s thorough" % pid,
            "evidence_file": "/verif/evidence/%s.json" % pid,
            "replay_cmd_template": "./check %s quick --replay {path}" % pid,
            "engine": c["engine"],
            "level_claimed": {"category": c["category"], "text": c["text"], "design_ref": c["design"]},
            "level_note": c["note"],
            "technique": c["technique"],
        })
    stage_pkgs = {}
    for pid_, spec_ in m.props(lambda pkg, test, quick, thorough, level="exploration", regress=None, extra_env=None, also=None: dict(pkg=pkg, also=also or [])).items():
        stage_pkgs[pid_] = {spec_["pkg"]} | {a["pkg"] for a in spec_["also"]}
    for e in ENGINES:
        e["serves_properties"] = sorted(p for p, c in CHECKS.items() if c["engine"] == e["name"] or e["name"] in stage_pkgs.get(p, ()))
    repo_fix_commits = []
    try:
        import subprocess
        out = subprocess.run(["git", "-C", "/repo", "log", "--format=%h %s"], stdout=subprocess.PIPE, text=True).stdout
        repo_fix_commits = [l.split()[0] for l in out.splitlines() if l.split(" ", 1)[1].startswith("fix:")]
    except Exception:
        pass
    man = {
        "version": 1,
        "setup_cmd": "./setup.sh",
        "hooks": {
            "guard": "verif",
            "enable": "go build tag `verif`: the hook files are `//go:build verif` sources kept in /verif/harness/hooks and injected into /repo's packages at build time with "
                      "`go test -c -tags verif -overlay=<generated> -modfile=<generated>` (see ./check); /repo carries no hook code, so guard-off is the plain tree",
            "baseline_off_cmd": "/verif/baseline.sh /repo",
            "source_commits": [],
            "add_only": True,
        },
        "engines": ENGINES,
        "checks": checks,
        "notes": "Exit codes of ./check: 0 held, 1 VIOLATION line, 2 inconclusive (build failure/time-out). VERIF_SEED selects the rapid seed. "
                 "fix: commits in /repo (genuine defects repaired, see known_findings.json and DESIGN.md §8): " + " ".join(repo_fix_commits),
        "not_applicable": NOT_APPLICABLE,
    }
    with open(os.path.join(HERE, "MANIFEST.json"), "w") as fh:
        json.dump(man, fh, indent=1, ensure_ascii=False)
        fh.write("\n")
    # validate
    try:
        import jsonschema
        jsonschema.validate(man, json.load(open("/root/.vp/MANIFEST.schema.json")))
        print("MANIFEST.json valid:", len(checks), "checks")
    except ImportError:
        print("MANIFEST.json written (jsonschema not available):", len(checks), "checks")


if __name__ == "__main__":
    main()
