#!/usr/bin/env python3
"""Regenerates /verif/MANIFEST.json from the table below (run after adding a check)."""
import json, os, importlib.util

HERE = os.path.dirname(os.path.abspath(__file__))

SIM_NOTE = ("Trusted base: SQLite's own atomic commit; the harness' vaio (≈ internal/aio/aio_dst.go with every choice drawn by rapid) standing in for "
            "the production AIO queues (those are C12's subject); the shadow store that replays every transaction in its own SQL transaction to obtain "
            "per-transaction snapshots (its agreement with the batched primary is itself checked). Absence is not established.")

CHECKS = {
    "C05": dict(engine="sim", category="exploration", design="§3, §4 C05",
                technique="stateful property-based testing (rapid) of the real kernel under a drawn schedule; invariant oracle over per-transaction database snapshots and responses",
                text="Generated search over workloads and schedules (interleaving, batching, holds across ticks, before/after-commit faults, crash/restart) of the real kernel + coroutines + sqlite store; "
                     "oracle J1–J3 from the statement: no registration row without a pending promise, every registration present when its promise leaves pending becomes exactly one fresh task in that very transaction, "
                     "and an acknowledged registration that reports 'pending' is actually stored (or already converted). Found F1 and F19 on the original tree (both repaired by fix: commits). "
                     "Exploration is the right level: the property quantifies over interleavings the harness can own completely, but the space is unbounded.",
                note=SIM_NOTE),
}

NOT_APPLICABLE = []

ENGINES = [
    dict(name="sim", path="harness/sim", kind_free_text="deterministic simulator: real system.System/api/coroutines/sqlite store/router/sender worker behind a rapid-driven AIO (schedule, faults, crashes are draws); per-transaction snapshots; statement-derived oracles"),
]


def main():
    spec = importlib.util.spec_from_file_location("props", os.path.join(HERE, "props.py"))
    m = importlib.util.module_from_spec(spec)
    spec.loader.exec_module(m)
    props = m.props(lambda pkg, test, quick, thorough, level="exploration", regress=None, extra_env=None: dict(pkg=pkg, level=level))
    checks = []
    for pid in sorted(CHECKS):
        c = CHECKS[pid]
        assert pid in props, pid
        checks.append({
            "property_id": pid,
            "quick_cmd": "./check %s quick" % pid,
            "thorough_cmd": "./check %s thorough" % pid,
            "evidence_file": "/verif/evidence/%s.json" % pid,
            "replay_cmd_template": "./check %s quick --replay {path}" % pid,
            "engine": c["engine"],
            "level_claimed": {"category": c["category"], "text": c["text"], "design_ref": c["design"]},
            "level_note": c["note"],
            "technique": c["technique"],
        })
    for e in ENGINES:
        e["serves_properties"] = sorted(p for p, c in CHECKS.items() if c["engine"] == e["name"])
    repo_fix_commits = []
    try:
        import subprocess
        out = subprocess.run(["git", "-C", "/repo", "log", "--format=%h %s"], stdout=subprocess.PIPE, text=True).stdout
        repo_fix_commits = [l.split()[0] for l in out.splitlines() if l.split(" ", 1)[1].startswith("fix:")]
    except Exception:
        pass
    man = {
        "version": 1,
        "setup_cmd": "./setup.sh",
        "hooks": {
            "guard": "verif",
            "enable": "go build tag `verif`: the hook files are `//go:build verif` sources kept in /verif/harness/hooks and injected into /repo's packages at build time with "
                      "`go test -c -tags verif -overlay=<generated> -modfile=<generated>` (see ./check); /repo carries no hook code, so guard-off is the plain tree",
            "baseline_off_cmd": "/verif/baseline.sh /repo",
            "source_commits": [],
            "add_only": True,
        },
        "engines": ENGINES,
        "checks": checks,
        "notes": "Exit codes of ./check: 0 held, 1 VIOLATION line, 2 inconclusive (build failure/time-out). VERIF_SEED selects the rapid seed. "
                 "fix: commits in /repo (genuine defects repaired, see known_findings.json and DESIGN.md §8): " + " ".join(repo_fix_commits),
        "not_applicable": NOT_APPLICABLE,
    }
    with open(os.path.join(HERE, "MANIFEST.json"), "w") as fh:
        json.dump(man, fh, indent=1, ensure_ascii=False)
        fh.write("\n")
    # validate
    try:
        import jsonschema
        jsonschema.validate(man, json.load(open("/root/.vp/MANIFEST.schema.json")))
        print("MANIFEST.json valid:", len(checks), "checks")
    except ImportError:
        print("MANIFEST.json written (jsonschema not available):", len(checks), "checks")


if __name__ == "__main__":
    main()
