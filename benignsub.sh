#!/bin/bash
# benignsub.sh — every property-preserving change under benign/ against its own property's check and the checks whose
# oracles changed last (arguments), on the scratch worktree $WT: any VIOLATION is a false alarm to be analysed.
WT=${WT:-/tmp/clean}; cd /verif
for d in benign/C*/; do
  p=$(basename $d)
  for f in $d*.diff; do
    git -C $WT checkout -q -- . ; git -C $WT apply "$(readlink -f $f)" || { echo "$f does not apply"; continue; }
    for c in $p "$@"; do
      [ "$c" = "$p" ] && [ "$c" != "$1" ] && dup=1
      out=$(VERIF_REPO=$WT VERIF_SEED=${VERIF_SEED:-1} ./check $c quick 2>&1 | grep "VIOLATION property\|INCONCLUSIVE" | head -2)
      echo "$p/$(basename $f) $c: ${out:-silent}"
    done
    git -C $WT checkout -q -- .
  done
done
echo DONE
