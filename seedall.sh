#!/bin/bash
# seedall.sh <cmds file> <results file> — verifies each seeded change in its scratch worktree, then runs the listed checks against it.
CMDS=$1; OUT=$2
while IFS='|' read -r px demo checks; do
  pid=${px% *}; x=${px#* }
  v=$(/verif/verifyseed.sh $pid $x "$demo" 2>&1 | grep -E "rc=|baseline|does not apply|^ok$" | tr '\n' ' ')
  echo "VERIFY $pid $x: $v" >> $OUT
  case "$v" in *"rc=0 ok baseline: 272/272 stable tests pass rc=1"*) ;; *) echo "  (verification NOT as expected, skipping checks)" >> $OUT; continue;; esac
  (cd /verif && ./seedtest.sh /tmp/seed/$pid/SEED/$x.diff quick $checks) >> $OUT 2>&1
done < $CMDS
echo DONE >> $OUT
