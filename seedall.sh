#!/bin/bash
# seedall.sh <cmds file> <results file> — verifies each seeded change in its scratch worktree (verifyseed.sh), then runs
# the listed checks against it on the scratch worktree /tmp/wt (seedtest_wt.sh). Lines: "<pid> <X>|<demo command>|<checks>"
CMDS=$1; OUT=$2
while IFS='|' read -r px demo checks; do
  pid=${px% *}; x=${px#* }
  case $x in A|B) sd=SEED;; C|D) sd=SEED2;; E|F) sd=SEED3;; G|H) sd=SEED4;; I|J) sd=SEED5;; *) sd=SEED6;; esac
  v=$(/verif/verifyseed.sh $pid $x "$demo" 2>&1 | grep -E "rc=|baseline|does not apply|^ok$" | tr '\n' ' ')
  echo "VERIFY $pid $x: $v" >> $OUT
  case "$v" in *"rc=0 ok baseline: 272/272 stable tests pass rc=1"*) ;; *) echo "  (verification NOT as expected, skipping checks)" >> $OUT; continue;; esac
  mkdir -p /tmp/w2logs/stage/$pid-$x && cp /tmp/seed/$pid/$sd/$x.diff /tmp/w2logs/stage/$pid-$x/patch.diff
  (cd /verif && ./seedtest_wt.sh /tmp/w2logs/stage/$pid-$x/patch.diff quick $checks) >> $OUT 2>&1
done < $CMDS
echo DONE >> $OUT
