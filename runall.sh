#!/bin/bash
# runall.sh [quick|thorough] [seed] [jobs] — runs every registered check, prints one line per check.
cd "$(dirname "$0")"
TIER=${1:-quick}; SEED=${2:-1}; JOBS=${3:-4}
IDS=$(python3 -c "import json;print(' '.join(c['property_id'] for c in json.load(open('MANIFEST.json'))['checks']))")
LOGDIR=.build/runall.$TIER.$SEED.$$
mkdir -p $LOGDIR
run() { id=$1; VERIF_SEED=$SEED ./check $id $TIER > $LOGDIR/$id.log 2>&1; echo "$id rc=$? $(grep -E '^(OK|VIOLATION|INCONCLUSIVE)' $LOGDIR/$id.log | tail -1 | cut -c1-160)"; grep -E '^KNOWN-FINDING' $LOGDIR/$id.log | cut -c1-160; }
export -f run; export SEED TIER LOGDIR
echo $IDS | tr ' ' '\n' | xargs -P $JOBS -I{} bash -c 'run {}'
