# Registry of property checks for /verif/check.  quick = (cases, timeout_s); thorough = (shards, cases_per_shard, timeout_s)
def props(P):
    sim = lambda test, q, th, **kw: P("sim", test, q, th, **kw)
    return {
        "C05": sim("TestC05", (500, 240), (16, 2500, 1500), regress="TestRegressC05"),
    }
