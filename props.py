# Registry of property checks for /verif/check.  quick = (cases, timeout_s) or (shards, cases_per_shard, timeout_s); thorough = (shards, cases_per_shard, timeout_s)
def props(P0):
    def P(*a, **kw):
        try:
            return P0(*a, **kw)
        except TypeError:
            kw.pop("also", None)
            return P0(*a, **kw)
    return _props(P)


def equiv(ops):
    """tier (f): both front ends hand the kernel the same request for this property's operations"""
    return dict(pkg="front", test="TestEquiv", quick=(2, 1500, 300), thorough=(4, 20000, 1200), env={"VERIF_EQUIV_OPS": ops})


def _props(P):
    sim = lambda test, q, th, **kw: P("sim", test, q, th, **kw)
    store = lambda test, q, th, **kw: P("storepbt", test, q, th, **kw)
    front = lambda test, q, th, **kw: P("front", test, q, th, **kw)
    proc = lambda test, q, th, **kw: P("proc", test, q, th, extra_env={"VERIF_NEEDS_SERVER": "1"}, **kw)
    return {
        "C01": sim("TestC01", (4, 1200, 300), (16, 12000, 3000), also=[equiv("CreatePromise,CreatePromiseAndTask,CompletePromise,ReadPromise,SearchPromises")]),
        "C02": sim("TestC02", (4, 500, 300), (16, 6000, 3000), regress="TestRegressC02", also=[equiv("")]),
        "C03": sim("TestC03", (4, 1200, 300), (16, 12000, 3000),
                   also=[dict(pkg="proc", test="TestC03b", quick=(200, 300), thorough=(8, 1500, 2400), env={"VERIF_NEEDS_SERVER": "1"})]),
        "C04": sim("TestC04", (4, 1200, 300), (16, 12000, 3000), also=[equiv("CreatePromise,CreatePromiseAndTask,CompletePromise,ReadPromise,SearchPromises")]),
        "C05": sim("TestC05", (4, 1200, 300), (16, 12000, 3000), regress="TestRegressC05", also=[equiv("CreateCallback,CreateSubscription,CompletePromise")]),
        "C06": sim("TestC06", (4, 40, 300), (16, 80, 3000), level="fault_enumeration",
                   also=[dict(pkg="proc", test="TestC06b", quick=(6, 300), thorough=(8, 12, 2400), env={"VERIF_NEEDS_SERVER": "1"})]),
        "C07": sim("TestC07", (4, 1000, 300), (16, 12000, 3000), also=[equiv("ClaimTask,CompleteTask,HeartbeatTasks,CreatePromiseAndTask")]),
        "C08": sim("TestC08", (4, 1000, 300), (16, 12000, 3000), also=[equiv("CreatePromise,CreatePromiseAndTask,CreateCallback,CreateSubscription,ClaimTask,CompleteTask")]),
        "C09": sim("TestC09", (4, 1200, 300), (16, 15000, 3000), also=[equiv("AcquireLock,ReleaseLock,HeartbeatLocks")]),
        "C10": sim("TestC10", (4, 1200, 300), (16, 12000, 3000), also=[equiv("CreateSchedule,ReadSchedule,DeleteSchedule")]),
        "C11": sim("TestC11", (4, 300, 300), (16, 5000, 3000), regress="TestRegressC11",
                   also=[dict(pkg="kernelq", test="TestC11b", quick=(2, 12, 300), thorough=(8, 150, 1800), env={})]),
        "C13": P("proc", "TestC13", (3, 4, 900), (12, 40, 3000), extra_env={"VERIF_NEEDS_SERVER": "1", "VERIF_SHRINK": "1ms"}),
        "C14": sim("TestC14", (4, 600, 300), (16, 10000, 3000), also=[equiv("SearchPromises,SearchSchedules"),
                   dict(pkg="front", test="FuzzForgedCursor", quick=(1, 1, 300), thorough=(1, 1, 600), env={}, fuzz=60)]),
        "C15": front("TestC15", (4, 1500, 300), (8, 20000, 1200)),
        "C12": P("kernelq", "TestC12", (4, 1500, 300), (16, 6000, 1800), also=[dict(pkg="front", test="TestRefusals", quick=(1, 1, 300), thorough=(1, 1, 600), env={})]),
        "C18": P("pollt", "TestC18", (4, 1500, 300), (16, 6000, 1200)),
        "C19": P("route", "TestC19", (4, 20000, 300), (16, 100000, 1200), also=[dict(pkg="route", test="TestC19b", quick=(2, 150, 300), thorough=(8, 1500, 1200), env={}),
                         dict(pkg="route", test="FuzzC19Tag", quick=(1, 1, 300), thorough=(1, 1, 600), env={}, fuzz=90)]),
        "C16": store("TestC16", (4, 300, 300), (16, 1200, 2400)),
        "C17": store("TestC17", (4, 400, 300), (16, 2500, 2400)),
        "C20": proc("TestC20", (150, 420), (8, 1500, 3000)),
    }
