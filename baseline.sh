#!/bin/bash
# Runs the repository's pinned baseline suite (guard OFF: no -tags verif, no overlay) and compares with BASELINE.json.
# Usage: baseline.sh [repo_dir]   exit 0 iff every stable_pass test passes.
REPO=${1:-/repo}
export GOFLAGS=-mod=mod GOPROXY=off GOSUMDB=off GOTOOLCHAIN=local
OUT=$(mktemp /dev/shm/baseline.XXXXXX.json)
cp $REPO/go.sum /dev/shm/baseline.gosum.$$ 
(cd $REPO && go test -mod=mod -json -vet=off -count=1 -timeout 25m ./... > $OUT 2>/dev/null)
# restore go.sum if -mod=mod rewrote it
if ! cmp -s $REPO/go.sum /dev/shm/baseline.gosum.$$; then cp /dev/shm/baseline.gosum.$$ $REPO/go.sum; fi
rm -f /dev/shm/baseline.gosum.$$
python3 - "$OUT" <<'PY'
import json,sys
base=json.load(open('/root/.vp/BASELINE.json'))
want=set(base['stable_pass'])
res={}
for l in open(sys.argv[1]):
    try: e=json.loads(l)
    except: continue
    if e.get('Action') in('pass','fail','skip') and e.get('Test'):
        res[e['Package']+'::'+e['Test']]=e['Action']
passed=[t for t in want if res.get(t)=='pass']
missing=sorted(t for t in want if res.get(t)!='pass')
print("baseline: %d/%d stable tests pass"%(len(passed),len(want)))
for t in missing[:20]: print("  NOT PASSING:",t,res.get(t))
sys.exit(0 if not missing else 1)
PY
RC=$?
rm -f $OUT
exit $RC
