#!/bin/bash
# Warm the go build cache for every harness package (offline). Idempotent.
cd "$(dirname "$0")"
export GOFLAGS=-mod=mod GOPROXY=off GOSUMDB=off GOTOOLCHAIN=local
python3 - <<'PY'
import importlib.machinery, importlib.util, os, shutil, sys
loader = importlib.machinery.SourceFileLoader("check", "/verif/check")
spec = importlib.util.spec_from_loader("check", loader)
m = importlib.util.module_from_spec(spec); loader.exec_module(m)
m.register()
bdir = "/verif/.build/setup.%d" % os.getpid()
ok = True
for pkg in sorted({p["pkg"] for p in m.PROPS.values()}):
    if not m.build(pkg, bdir):
        ok = False
if any(p["env"].get("VERIF_NEEDS_SERVER") for p in m.PROPS.values()):
    if not m.build_server(bdir):
        ok = False
shutil.rmtree(bdir, ignore_errors=True)
sys.exit(0 if ok else 1)
PY
