#!/bin/bash
# benigntest.sh <diff> [jobs] — applies a property-PRESERVING change to the scratch worktree $WT and runs every quick check
# on it: any VIOLATION is a false alarm to be analysed (or the change is not benign after all).
WT=${WT:-/tmp/wt2}; D=$(readlink -f "$1"); JOBS=${2:-4}
cd /verif
git -C $WT checkout -q -- . ; git -C $WT apply "$D" || { echo "$D does not apply"; exit 3; }
name=$(basename $(dirname $(dirname "$D")))-$(basename "$D" .diff)
mkdir -p .build/benign; cp -r evidence .build/benign/ev.$$
out=$(VERIF_REPO=$WT ./runall.sh quick ${VERIF_SEED:-1} $JOBS 2>&1 | grep -v "rc=0" | grep -v "^KNOWN-FINDING" | cut -c1-200)
cp .build/benign/ev.$$/*.json evidence/; rm -rf .build/benign/ev.$$
git -C $WT checkout -q -- .
if [ -z "$out" ]; then echo "$name: all 20 checks silent"; else echo "$name: $out"; fi
